// Heap and value model: concrete shape, symbolic scalars (DESIGN §2.2).
package main

import (
	"fmt"
	"go/constant"
	"go/types"
	"sort"
	"strings"

	"golang.org/x/tools/go/ssa"
)

type Value interface{}

type Obj struct {
	id   int
	v    Value
	what string // allocation site comment
}
type Ptr struct {
	obj  *Obj
	path []int
	sym  *symIdx // optional: path[sym.pos] is a symbolic index in [0,n)
}

// symIdx makes one element of a pointer path symbolic: loads become ite-chains and stores
// guarded updates over the (small, concrete) length.
type symIdx struct {
	pos int
	idx BV
	n   int
}
type Struct []Value
type Array []Value
type Slice struct {
	arr      *Obj // holds Array
	off, len int
	cap      int
}
type Iface struct {
	t types.Type
	v Value
}
type Closure struct {
	fn  *ssa.Function
	env []Value
}
type Tuple []Value
type Str string

type MapV struct {
	obj *MapObj
}
type MapObj struct {
	id   int
	keys []Value
	vals []Value
}

// goPanic is a Go-level panic raised by the interpreted program.
type goPanic struct{ msg string }

// pathEnd ends the current path (not an error).
type pathEnd struct{ why string }

// engineErr marks something the engine cannot model: the path is inconclusive.
type engineErr struct{ msg string }

type abortG struct{}

func unsupported(format string, a ...interface{}) {
	panic(engineErr{fmt.Sprintf(format, a...)})
}

func intWidth(t types.Type) (int, bool, bool) { // width, signed, ok
	b, ok := t.Underlying().(*types.Basic)
	if !ok {
		return 0, false, false
	}
	switch b.Kind() {
	case types.Int, types.Int64, types.UntypedInt, types.UntypedRune:
		return 64, true, true
	case types.Uint, types.Uint64, types.Uintptr:
		return 64, false, true
	case types.Int32:
		return 32, true, true
	case types.Uint32:
		return 32, false, true
	case types.Int16:
		return 16, true, true
	case types.Uint16:
		return 16, false, true
	case types.Int8:
		return 8, true, true
	case types.Uint8:
		return 8, false, true
	}
	return 0, false, false
}
func floatBits(t types.Type) int {
	b, ok := t.Underlying().(*types.Basic)
	if !ok {
		return 0
	}
	switch b.Kind() {
	case types.Float32:
		return 32
	case types.Float64, types.UntypedFloat:
		return 64
	}
	return 0
}

func (w *World) zero(t types.Type) Value {
	switch u := t.Underlying().(type) {
	case *types.Basic:
		if u.Info()&types.IsBoolean != 0 {
			return cbool(false)
		}
		if u.Info()&types.IsString != 0 {
			return Str("")
		}
		if wd, _, ok := intWidth(t); ok {
			return cbv(wd, 0)
		}
		if fb := floatBits(t); fb != 0 {
			return cfp(fb, 0)
		}
		if u.Kind() == types.UnsafePointer {
			return nil
		}
		if u.Kind() == types.UntypedNil {
			return nil
		}
	case *types.Struct:
		s := make(Struct, u.NumFields())
		for i := range s {
			s[i] = w.zero(u.Field(i).Type())
		}
		return s
	case *types.Array:
		a := make(Array, u.Len())
		for i := range a {
			a[i] = w.zero(u.Elem())
		}
		return a
	case *types.Pointer:
		return Ptr{}
	case *types.Signature:
		return Closure{}
	case *types.Map:
		return MapV{}
	case *types.Chan:
		return (*Chan)(nil)
	case *types.Slice:
		return Slice{}
	case *types.Interface:
		return Iface{}
	case *types.Tuple:
		tp := make(Tuple, u.Len())
		for i := range tp {
			tp[i] = w.zero(u.At(i).Type())
		}
		return tp
	case *types.TypeParam:
		unsupported("zero of type parameter %s", t)
	}
	unsupported("zero: unsupported type %s", t)
	return nil
}

func (w *World) newObj(v Value, what string) *Obj {
	w.nobj++
	return &Obj{id: w.nobj, v: v, what: what}
}

func copyVal(v Value) Value {
	switch s := v.(type) {
	case Struct:
		c := make(Struct, len(s))
		for i := range s {
			c[i] = copyVal(s[i])
		}
		return c
	case Array:
		c := make(Array, len(s))
		for i := range s {
			c[i] = copyVal(s[i])
		}
		return c
	}
	return v
}
func nav(v Value, i int) Value {
	switch s := v.(type) {
	case Struct:
		return s[i]
	case Array:
		if i >= len(s) {
			panic(goPanic{"index out of range"})
		}
		return s[i]
	}
	panic(engineErr{fmt.Sprintf("nav into %T", v)})
}
func setnav(v Value, i int, x Value) {
	switch s := v.(type) {
	case Struct:
		s[i] = x
	case Array:
		s[i] = x
	default:
		panic(engineErr{fmt.Sprintf("setnav into %T", v)})
	}
}

func (in *Interp) load(p Ptr) Value {
	if p.obj == nil {
		panic(goPanic{"nil pointer dereference"})
	}
	in.hbAccess(p, false)
	if p.sym != nil {
		var acc Value
		for i := p.sym.n - 1; i >= 0; i-- {
			vi := rawLoad(p.at(i))
			if acc == nil {
				acc = vi
				continue
			}
			acc = in.w.mergeITE(in.w.tf.bvCmp("eq", p.sym.idx, cbv(p.sym.idx.w, uint64(i)), false), vi, acc)
		}
		return acc
	}
	return rawLoad(p)
}

// at instantiates the symbolic index with a concrete value.
func (p Ptr) at(i int) Ptr {
	np := append([]int{}, p.path...)
	np[p.sym.pos] = i
	return Ptr{obj: p.obj, path: np}
}

func (w *World) mergeITE(c Bool, a, b Value) Value {
	switch x := a.(type) {
	case BV:
		return w.tf.iteBV(c, x, b.(BV))
	case Bool:
		return w.tf.iteBool(c, x, b.(Bool))
	case FP:
		return w.tf.iteFP(c, x, b.(FP))
	case Struct:
		y := b.(Struct)
		r := make(Struct, len(x))
		for i := range x {
			r[i] = w.mergeITE(c, x[i], y[i])
		}
		return r
	case Array:
		y := b.(Array)
		r := make(Array, len(x))
		for i := range x {
			r[i] = w.mergeITE(c, x[i], y[i])
		}
		return r
	}
	if c.t == nil {
		if c.v {
			return a
		}
		return b
	}
	if w.equal(a, b).v {
		return a
	}
	panic(engineErr{fmt.Sprintf("cannot merge %T values under a symbolic index", a)})
}
func rawLoad(p Ptr) Value {
	if p.sym != nil {
		panic(engineErr{"rawLoad through symbolic index"})
	}
	v := p.obj.v
	for _, i := range p.path {
		v = nav(v, i)
	}
	return copyVal(v)
}
func (in *Interp) store(p Ptr, val Value) {
	if p.obj == nil {
		panic(goPanic{"nil pointer dereference"})
	}
	in.hbAccess(p, true)
	if p.sym != nil {
		for i := 0; i < p.sym.n; i++ {
			pi := p.at(i)
			rawStore(pi, in.w.mergeITE(in.w.tf.bvCmp("eq", p.sym.idx, cbv(p.sym.idx.w, uint64(i)), false), val, rawLoad(pi)))
		}
		return
	}
	rawStore(p, val)
}
func rawStore(p Ptr, val Value) {
	val = copyVal(val)
	if len(p.path) == 0 {
		p.obj.v = val
		return
	}
	v := p.obj.v
	for _, i := range p.path[:len(p.path)-1] {
		v = nav(v, i)
	}
	setnav(v, p.path[len(p.path)-1], val)
}
func (p Ptr) field(i int) Ptr {
	return Ptr{obj: p.obj, path: append(append(make([]int, 0, len(p.path)+1), p.path...), i), sym: p.sym}
}

func (w *World) constVal(c *ssa.Const) Value {
	t := c.Type()
	if c.Value == nil {
		return w.zero(t)
	}
	switch c.Value.Kind() {
	case constant.Bool:
		return cbool(constant.BoolVal(c.Value))
	case constant.String:
		return Str(constant.StringVal(c.Value))
	}
	if fb := floatBits(t); fb != 0 {
		f, _ := constant.Float64Val(constant.ToFloat(c.Value))
		return cfp(fb, f)
	}
	if wd, _, ok := intWidth(t); ok {
		iv := constant.ToInt(c.Value)
		if i, ok := constant.Int64Val(iv); ok {
			return cbv(wd, uint64(i))
		}
		u, _ := constant.Uint64Val(iv)
		return cbv(wd, u)
	}
	unsupported("const %s of type %s", c, t)
	return nil
}

func isNilV(v Value) bool {
	switch x := v.(type) {
	case nil:
		return true
	case Ptr:
		return x.obj == nil
	case Iface:
		return x.t == nil
	case Closure:
		return x.fn == nil && x.env == nil
	case Slice:
		return x.arr == nil
	case *Chan:
		return x == nil
	case MapV:
		return x.obj == nil
	}
	return false
}

// equal implements Go's == on engine values; scalar leaves may be symbolic.
func (w *World) equal(a, b Value) Bool {
	tf := &w.tf
	switch x := a.(type) {
	case BV:
		return tf.bvCmp("eq", x, b.(BV), false)
	case Bool:
		return tf.boolEq(x, b.(Bool))
	case FP:
		return tf.fpCmp("eq", x, b.(FP))
	case Str:
		y, ok := b.(Str)
		return cbool(ok && x == y)
	}
	if isNilV(a) || isNilV(b) {
		return cbool(isNilV(a) && isNilV(b))
	}
	switch x := a.(type) {
	case Ptr:
		y, ok := b.(Ptr)
		if ok && (x.sym != nil || y.sym != nil) {
			unsupported("comparison of pointers with a symbolic index")
		}
		if !ok || x.obj != y.obj || len(x.path) != len(y.path) {
			return cbool(false)
		}
		for i := range x.path {
			if x.path[i] != y.path[i] {
				return cbool(false)
			}
		}
		return cbool(true)
	case Iface:
		y, ok := b.(Iface)
		if !ok || !types.Identical(x.t, y.t) {
			return cbool(false)
		}
		return w.equal(x.v, y.v)
	case *Chan:
		y, ok := b.(*Chan)
		return cbool(ok && x == y)
	case Struct:
		y, ok := b.(Struct)
		if !ok || len(x) != len(y) {
			return cbool(false)
		}
		r := cbool(true)
		for i := range x {
			r = tf.and(r, w.equal(x[i], y[i]))
		}
		return r
	case Array:
		y, ok := b.(Array)
		if !ok || len(x) != len(y) {
			return cbool(false)
		}
		r := cbool(true)
		for i := range x {
			r = tf.and(r, w.equal(x[i], y[i]))
		}
		return r
	case Closure:
		panic(goPanic{"comparing uncomparable type func"})
	case *Ctx:
		y, ok := b.(*Ctx)
		return cbool(ok && x == y)
	case RType:
		y, ok := b.(RType)
		return cbool(ok && types.Identical(x.t, y.t))
	case *TimerM:
		y, ok := b.(*TimerM)
		return cbool(ok && x == y)
	case cancelFn:
		panic(goPanic{"comparing uncomparable type func"})
	}
	panic(engineErr{fmt.Sprintf("equal on %T", a)})
}

// deepEqual implements reflect.DeepEqual structurally.
func (w *World) deepEqual(a, b Value, depth int) Bool {
	if depth > 20 {
		unsupported("DeepEqual too deep")
	}
	tf := &w.tf
	switch x := a.(type) {
	case BV, Bool, FP, Str:
		return w.equal(a, b)
	case Iface:
		y := b.(Iface)
		if x.t == nil || y.t == nil {
			return cbool(x.t == nil && y.t == nil)
		}
		if !types.Identical(x.t, y.t) {
			return cbool(false)
		}
		return w.deepEqual(x.v, y.v, depth+1)
	case Ptr:
		y := b.(Ptr)
		if x.obj == nil || y.obj == nil {
			return cbool(x.obj == nil && y.obj == nil)
		}
		if w.equal(x, y).v {
			return cbool(true)
		}
		return w.deepEqual(rawLoad(x), rawLoad(y), depth+1)
	case Struct:
		y := b.(Struct)
		r := cbool(true)
		for i := range x {
			r = tf.and(r, w.deepEqual(x[i], y[i], depth+1))
		}
		return r
	case Array:
		y := b.(Array)
		r := cbool(true)
		for i := range x {
			r = tf.and(r, w.deepEqual(x[i], y[i], depth+1))
		}
		return r
	case Slice:
		y := b.(Slice)
		if (x.arr == nil) != (y.arr == nil) || x.len != y.len {
			return cbool(false)
		}
		r := cbool(true)
		for i := 0; i < x.len; i++ {
			r = tf.and(r, w.deepEqual(x.arr.v.(Array)[x.off+i], y.arr.v.(Array)[y.off+i], depth+1))
		}
		return r
	case Closure:
		return cbool(isNilV(a) && isNilV(b))
	case nil:
		return cbool(isNilV(b))
	case *Chan:
		y, _ := b.(*Chan)
		return cbool(x == y)
	}
	panic(engineErr{fmt.Sprintf("deepEqual on %T", a)})
}

// ---- maps with concrete keys ----

func (w *World) mapKeyEq(a, b Value) bool {
	r := w.equal(a, b)
	if !r.conc() {
		unsupported("symbolic map key")
	}
	return r.v
}
func (w *World) mapGet(m MapV, k Value) (Value, bool) {
	if m.obj == nil {
		return nil, false
	}
	for i, kk := range m.obj.keys {
		if w.mapKeyEq(kk, k) {
			return m.obj.vals[i], true
		}
	}
	return nil, false
}
func (w *World) mapSet(m MapV, k, v Value) {
	if m.obj == nil {
		panic(goPanic{"assignment to entry in nil map"})
	}
	for i, kk := range m.obj.keys {
		if w.mapKeyEq(kk, k) {
			m.obj.vals[i] = copyVal(v)
			return
		}
	}
	m.obj.keys = append(m.obj.keys, copyVal(k))
	m.obj.vals = append(m.obj.vals, copyVal(v))
}
func (w *World) mapDelete(m MapV, k Value) {
	if m.obj == nil {
		return
	}
	for i, kk := range m.obj.keys {
		if w.mapKeyEq(kk, k) {
			m.obj.keys = append(m.obj.keys[:i], m.obj.keys[i+1:]...)
			m.obj.vals = append(m.obj.vals[:i], m.obj.vals[i+1:]...)
			return
		}
	}
}

// describe renders a value for traces/observations.
func describe(v Value) string {
	switch x := v.(type) {
	case nil:
		return "nil"
	case BV:
		if x.t == nil {
			return fmt.Sprint(sext(x.v, x.w))
		}
		return x.t.name
	case Bool:
		if x.t == nil {
			return fmt.Sprint(x.v)
		}
		return x.t.name
	case FP:
		if x.t == nil {
			return fmt.Sprint(x.f)
		}
		return x.t.name
	case Str:
		return fmt.Sprintf("%q", string(x))
	case Ptr:
		if x.obj == nil {
			return "nil"
		}
		return fmt.Sprintf("&obj%d%v", x.obj.id, x.path)
	case Iface:
		if x.t == nil {
			return "nil"
		}
		return fmt.Sprintf("%s(%s)", shortType(x.t), describe(x.v))
	case Struct:
		var parts []string
		for _, f := range x {
			parts = append(parts, describe(f))
		}
		return "{" + strings.Join(parts, " ") + "}"
	case Closure:
		if x.fn == nil {
			return "nil-func"
		}
		return "func:" + x.fn.Name()
	case Slice:
		return fmt.Sprintf("slice(len=%d)", x.len)
	}
	return fmt.Sprintf("%T", v)
}

func shortType(t types.Type) string {
	s := types.TypeString(t, func(p *types.Package) string { return p.Name() })
	return s
}

func sortedKeys(m map[string]int) []string {
	var ks []string
	for k := range m {
		ks = append(ks, k)
	}
	sort.Strings(ks)
	return ks
}

// symgo: bounded symbolic execution of Go (go/ssa) harnesses against the real failsafe-go code.
package main

import (
	"encoding/json"
	"flag"
	"fmt"
	"go/types"
	"os"
	"runtime"
	"sort"
	"strings"
	"sync"
	"sync/atomic"
	"time"

	"golang.org/x/tools/go/packages"
	"golang.org/x/tools/go/ssa"
	"golang.org/x/tools/go/ssa/ssautil"
)

// Job describes one harness exploration.
type Job struct {
	Entry      string  `json:"entry"`  // pkgpath.Func
	Solver     string  `json:"solver"` // profile name
	Preempt    int     `json:"preempt"`
	Delays     int     `json:"delays"`
	Race       bool    `json:"race"`
	MaxPaths   int     `json:"max_paths"`
	TimeLimitS float64 `json:"time_limit_s"`
	QTimeoutS  float64 `json:"qtimeout_s"`
	StepLimit  int     `json:"step_limit"`
	ConcLimit  int     `json:"conc_limit"`
	Samples    int     `json:"samples"`
	HorizonBit int     `json:"horizon_bits"`
	Replay     []int64 `json:"replay,omitempty"` // replay exactly this decision vector
	Prefix     []int64 `json:"prefix,omitempty"` // explore only the subtree below this decision prefix
	Workers    int     `json:"workers"`
	Note       string  `json:"note,omitempty"`
	Params     map[string]int64 `json:"params,omitempty"` // concrete harness parameters (zzvrt.Param)
	SymIdx     bool             `json:"symidx,omitempty"`
}

type LabelStat struct {
	Reached  int `json:"reached"`
	Proved   int `json:"proved"`
	Violated int `json:"violated"`
}

type Report struct {
	Entry        string                `json:"entry"`
	Job          Job                   `json:"job"`
	Paths        int                   `json:"paths"`
	Completed    int                   `json:"completed"`
	Ends         map[string]int        `json:"ends"`
	Labels       map[string]*LabelStat `json:"labels"`
	Reaches      map[string]int        `json:"reaches"`
	Violations   []Violation           `json:"violations"`
	Inconclusive []string              `json:"inconclusive"`
	CutByBound   map[string]int        `json:"paths_cut_by_bound"`
	Samples      []PathSample          `json:"samples"`
	Funcs        []string              `json:"functions_encoded"`
	Queries      map[string]int64      `json:"queries"`
	SolverS      float64               `json:"solver_s"`
	Backends     map[string][3]float64 `json:"backends"` // name → [answers, timeouts/unknowns, seconds]
	WallS        float64               `json:"wall_s"`
	Steps        int64                 `json:"ssa_steps"`
	MaxG         int                   `json:"max_goroutines"`
	Decisions    int64                 `json:"decisions"`
	Complete     bool                  `json:"complete"`
	Stopped      string                `json:"stopped,omitempty"`
}

func loadProgram(overlayJSON string, patterns []string, dir string) (*Env, error) {
	ov := map[string][]byte{}
	harnessPkgs := map[string]bool{}
	if overlayJSON != "" {
		b, err := os.ReadFile(overlayJSON)
		if err != nil {
			return nil, err
		}
		var m struct {
			Replace map[string]string
		}
		if err := json.Unmarshal(b, &m); err != nil {
			return nil, err
		}
		for v, r := range m.Replace {
			c, err := os.ReadFile(r)
			if err != nil {
				return nil, err
			}
			ov[v] = c
		}
	}
	cfg := &packages.Config{Mode: packages.LoadAllSyntax, Dir: dir, Overlay: ov, BuildFlags: []string{"-tags=verif"},
		Env: append(os.Environ(), "GOFLAGS=-mod=mod", "GOPROXY=off", "GOSUMDB=off", "GOTOOLCHAIN=local")}
	pkgs, err := packages.Load(cfg, patterns...)
	if err != nil {
		return nil, err
	}
	if n := packages.PrintErrors(pkgs); n > 0 {
		return nil, fmt.Errorf("%d package errors (harness no longer compiles against the tree?)", n)
	}
	prog, _ := ssautil.AllPackages(pkgs, ssa.InstantiateGenerics)
	prog.Build()
	env := &Env{prog: prog, pkgs: map[string]*ssa.Package{}, types: map[string]types.Type{}, harnessP: harnessPkgs}
	for _, p := range prog.AllPackages() {
		env.pkgs[p.Pkg.Path()] = p
	}
	look := func(pkg, name string) types.Type {
		p := env.pkgs[pkg]
		if p == nil {
			return nil
		}
		o := p.Pkg.Scope().Lookup(name)
		if o == nil {
			return nil
		}
		return o.Type()
	}
	for _, n := range []string{"backgroundCtx", "todoCtx", "cancelCtx", "valueCtx", "timerCtx", "deadlineExceededError"} {
		env.types["context."+n] = look("context", n)
	}
	if t := look("reflect", "rtype"); t != nil {
		env.types["*reflect.rtype"] = types.NewPointer(t)
	}
	env.types["errors.errorString"] = look("errors", "errorString")
	env.types["fmt.wrapError"] = look("fmt", "wrapError")
	env.types["error"] = types.Universe.Lookup("error").Type()
	return env, nil
}

func findEntry(env *Env, entry string) *ssa.Function {
	idx := strings.LastIndex(entry, ".")
	p := env.pkgs[entry[:idx]]
	if p == nil {
		return nil
	}
	return p.Func(entry[idx+1:])
}

func newWorld(env *Env, sol *Solver, prefix []int64) *World {
	w := &World{env: env, sol: sol, prefix: prefix, globals: map[*ssa.Global]*Obj{}, inited: map[*ssa.Package]bool{},
		reached: map[string]int{}, funcs: map[*ssa.Function]bool{}, reaches: map[string]int{},
		yielded: make(chan *G), abort: make(chan struct{}), dueMemo: map[[2]int]bool{},
		shadows: map[string]*shadow{}, vcs: map[interface{}]VC{}, raceSeen: map[string]bool{}, ctrs: map[string]int64{}, cells: map[string]Value{}}
	t0 := w.fresh("t0", sortBV(64))
	w.now = BV{w: 64, t: t0}
	w.addPC(w.tf.bvCmp("ge", w.now, cbv(64, 1), true))
	w.addPC(w.tf.bvCmp("lt", w.now, cbv(64, uint64(1)<<uint(env.opts.horizonBit)), true))
	w.bgCtx = &Ctx{kind: "background"}
	w.todoCtx = &Ctx{kind: "todo"}
	if cp := env.pkgs["context"]; cp != nil {
		eo := w.newObj(Struct{Str("context canceled")}, "context.Canceled")
		w.errCanceled = Iface{t: types.NewPointer(env.types["errors.errorString"]), v: Ptr{obj: eo}}
		if g := cp.Var("Canceled"); g != nil {
			w.globals[g] = w.newObj(w.errCanceled, "context.Canceled var")
		}
		w.errDeadline = Iface{t: env.types["context.deadlineExceededError"], v: Struct{}}
		if g := cp.Var("DeadlineExceeded"); g != nil {
			w.globals[g] = w.newObj(w.errDeadline, "context.DeadlineExceeded var")
		}
	}
	return w
}

type pathResult struct {
	w *World
}

func runPath(env *Env, sol *Solver, ef *ssa.Function, prefix []int64) *World {
	w := newWorld(env, sol, prefix)
	w.spawn(nil, false, "main", func(in *Interp) {
		in.runInit(fnPkg(ef))
		in.call(ef, nil, nil)
	})
	func() {
		defer func() {
			if r := recover(); r != nil {
				switch r := r.(type) {
				case pathEnd:
					w.end = r.why
				case engineErr:
					w.end = "ENGINE: " + r.msg
				default:
					w.end = fmt.Sprintf("ENGINE-PANIC(scheduler): %v", r)
				}
			}
		}()
		w.run()
	}()
	close(w.abort)
	return w
}

func explore(env *Env, job Job) *Report {
	t0 := time.Now()
	ef := findEntry(env, job.Entry)
	rep := &Report{Entry: job.Entry, Job: job, Ends: map[string]int{}, Labels: map[string]*LabelStat{}, Reaches: map[string]int{},
		CutByBound: map[string]int{}, Queries: map[string]int64{}}
	if ef == nil {
		rep.Inconclusive = append(rep.Inconclusive, "entry not found: "+job.Entry)
		return rep
	}
	e2 := *env
	e2.opts = Options{maxPre: job.Preempt, maxDelay: job.Delays, race: job.Race, stepLimit: job.StepLimit, concLimit: job.ConcLimit,
		sampleN: job.Samples, maxGo: 12, horizonBit: job.HorizonBit, params: job.Params, symIdx: job.SymIdx}
	env = &e2
	gstats.sat, gstats.unsat, gstats.unknown, gstats.cacheHits, gstats.nanos, gstats.perBackend = 0, 0, 0, 0, 0, nil
	var mu sync.Mutex
	work := [][]int64{{}}
	if job.Replay != nil {
		work = [][]int64{job.Replay}
	} else if job.Prefix != nil {
		work = [][]int64{job.Prefix}
	}
	active := 0
	cond := sync.NewCond(&mu)
	stopped := ""
	funcs := map[string]bool{}
	inconcl := map[string]int{}
	var steps, decisions int64
	violSeen := map[string]bool{}
	deadline := t0.Add(time.Duration(job.TimeLimitS * float64(time.Second)))
	nw := job.Workers
	if nw <= 0 {
		nw = runtime.NumCPU()
	}
	var wg sync.WaitGroup
	for i := 0; i < nw; i++ {
		wg.Add(1)
		go func() {
			defer wg.Done()
			sol := newSolver(job.Solver, time.Duration(job.QTimeoutS*float64(time.Second)))
			if job.TimeLimitS > 0 {
				sol.deadline = deadline.Add(time.Duration(job.QTimeoutS * float64(time.Second)))
			}
			defer sol.close()
			for {
				mu.Lock()
				for len(work) == 0 && active > 0 && stopped == "" {
					cond.Wait()
				}
				if stopped != "" || (len(work) == 0 && active == 0) {
					mu.Unlock()
					cond.Broadcast()
					return
				}
				pre := work[len(work)-1]
				work = work[:len(work)-1]
				active++
				mu.Unlock()

				w := runPath(env, sol, ef, pre)

				mu.Lock()
				active--
				rep.Paths++
				rep.Ends[classifyEnd(w.end)]++
				atomic.AddInt64(&steps, int64(w.steps))
				atomic.AddInt64(&decisions, int64(len(w.taken)))
				if len(w.gs) > rep.MaxG {
					rep.MaxG = len(w.gs)
				}
				for l, n := range w.reached {
					ls := rep.Labels[l]
					if ls == nil {
						ls = &LabelStat{}
						rep.Labels[l] = ls
					}
					ls.Reached += n
				}
				for _, l := range w.proved {
					rep.Labels[l].Proved++
				}
				for l, n := range w.reaches {
					rep.Reaches[l] += n
				}
				for f := range w.funcs {
					funcs[f.String()] = true
				}
				for _, s := range w.inconcl {
					inconcl[s]++
				}
				completed := w.end == "completed" || strings.HasPrefix(w.end, "completed-with")
				switch {
				case completed:
					rep.Completed++
				case strings.HasPrefix(w.end, "cut:"):
					rep.CutByBound[w.cut]++
				case strings.HasPrefix(w.end, "panic:"):
					if w.past() {
						if cm := w.currentModel(); cm != nil {
							w.violation("panic", w.end, w.panicWhere, cm)
						} else {
							inconcl["panic on a path whose feasibility is unknown: "+w.end]++
						}
					}
				case w.end == "DEADLOCK":
					if w.past() {
						if cm := w.currentModel(); cm != nil {
							w.violation("deadlock", "deadlock: "+w.blockedSummary(), "", cm)
						} else {
							inconcl["deadlock on a path whose feasibility is unknown"]++
						}
					}
				case strings.HasPrefix(w.end, "ENGINE"):
					inconcl[w.end]++
				}
				for _, v := range w.viols {
					if ls := rep.Labels[v.Label]; ls != nil && v.Kind == "assert" {
						ls.Violated++
					}
					key := v.Kind + "|" + v.Label
					if !violSeen[key] || len(rep.Violations) < 8 {
						if !violSeen[key] {
							rep.Violations = append(rep.Violations, v)
						}
						violSeen[key] = true
					}
				}
				if job.Replay == nil {
					work = append(work, w.alts...)
				}
				if completed && len(rep.Samples) < job.Samples {
					cm := w.currentModel()
					model, obs := w.modelMaps(cm)
					ins, outs := w.orderedVals(cm)
					rep.Samples = append(rep.Samples, PathSample{Decisions: w.taken, Model: model, Observed: obs, Inputs: ins, Observes: outs, End: w.end,
						Trace: w.trace, Asserts: w.proved})
				}
				if job.MaxPaths > 0 && rep.Paths >= job.MaxPaths && len(work) > 0 {
					stopped = fmt.Sprintf("max_paths %d reached with %d prefixes pending", job.MaxPaths, len(work))
				}
				if job.TimeLimitS > 0 && time.Now().After(deadline) && len(work) > 0 {
					stopped = fmt.Sprintf("time limit %.0fs reached with %d prefixes pending", job.TimeLimitS, len(work))
				}
				mu.Unlock()
				cond.Broadcast()
			}
		}()
	}
	wg.Wait()
	for f := range funcs {
		rep.Funcs = append(rep.Funcs, f)
	}
	sort.Strings(rep.Funcs)
	for s, n := range inconcl {
		rep.Inconclusive = append(rep.Inconclusive, fmt.Sprintf("%s (x%d)", s, n))
	}
	sort.Strings(rep.Inconclusive)
	rep.Stopped = stopped
	rep.Complete = stopped == "" && len(rep.Inconclusive) == 0
	rep.Queries["sat"] = gstats.sat
	rep.Queries["unsat"] = gstats.unsat
	rep.Queries["unknown"] = gstats.unknown
	rep.Queries["cache_hits"] = gstats.cacheHits
	rep.SolverS = float64(gstats.nanos) / 1e9
	rep.Backends = map[string][3]float64{}
	for k, v := range gstats.perBackend {
		rep.Backends[k] = [3]float64{float64(v[0]), float64(v[1]), float64(v[2]) / 1e9}
	}
	rep.WallS = time.Since(t0).Seconds()
	rep.Steps = steps
	rep.Decisions = decisions
	return rep
}

func classifyEnd(e string) string {
	for _, p := range []string{"ENGINE-PANIC", "ENGINE", "panic:", "cut:", "infeasible", "completed-with-blocked-goroutines"} {
		if strings.HasPrefix(e, p) {
			if p == "panic:" || p == "cut:" || p == "ENGINE" {
				return e
			}
			return p
		}
	}
	return e
}

func (w *World) blockedSummary() string {
	var parts []string
	for _, g := range w.gs {
		if !g.done {
			parts = append(parts, fmt.Sprintf("g%d(%s): %s", g.id, g.where, g.why))
		}
	}
	return strings.Join(parts, "; ")
}

func main() {
	overlay := flag.String("overlay", "", "overlay JSON ({\"Replace\":{virtual:real}})")
	jobsFile := flag.String("jobs", "", "JSON file with a list of jobs")
	out := flag.String("out", "", "report output (JSON list)")
	dir := flag.String("dir", "/repo", "module directory")
	repoMod := flag.String("mod", "github.com/failsafe-go/failsafe-go", "module path prefix of the code under test")
	harness := flag.String("harness-pkgs", "", "comma-separated package paths that are harness-only")
	harnessFiles := flag.String("harness-file-prefix", "zz_", "files with this prefix are harness code")
	flag.Parse()
	_ = harnessFiles
	t0 := time.Now()
	env, err := loadProgram(*overlay, flag.Args(), *dir)
	if err != nil {
		fmt.Fprintln(os.Stderr, "LOAD-ERROR:", err)
		os.Exit(2)
	}
	env.repoMod = *repoMod
	for _, p := range strings.Split(*harness, ",") {
		if p != "" {
			env.harnessP[p] = true
		}
	}
	fmt.Fprintf(os.Stderr, "loaded in %.1fs\n", time.Since(t0).Seconds())
	var jobs []Job
	b, err := os.ReadFile(*jobsFile)
	if err != nil {
		fmt.Fprintln(os.Stderr, err)
		os.Exit(2)
	}
	if err := json.Unmarshal(b, &jobs); err != nil {
		fmt.Fprintln(os.Stderr, err)
		os.Exit(2)
	}
	var reps []*Report
	for _, j := range jobs {
		if j.Solver == "" {
			j.Solver = "z3"
		}
		if j.StepLimit == 0 {
			j.StepLimit = 200000
		}
		if j.ConcLimit == 0 {
			j.ConcLimit = 64
		}
		if j.QTimeoutS == 0 {
			j.QTimeoutS = 60
		}
		if j.HorizonBit == 0 {
			j.HorizonBit = 47
		}
		r := explore(env, j)
		reps = append(reps, r)
		if *out != "" {
			ob, _ := json.MarshalIndent(reps, "", " ")
			os.WriteFile(*out, ob, 0644)
		}
		fmt.Fprintf(os.Stderr, "%s: paths=%d completed=%d ends=%v viol=%d inconcl=%d queries=%v backends=%v solver=%.1fs wall=%.1fs %s\n",
			j.Entry, r.Paths, r.Completed, r.Ends, len(r.Violations), len(r.Inconclusive), r.Queries, r.Backends, r.SolverS, r.WallS, r.Stopped)
	}
	ob, _ := json.MarshalIndent(reps, "", " ")
	if *out == "" {
		os.Stdout.Write(ob)
	} else {
		os.WriteFile(*out, ob, 0644)
	}
}

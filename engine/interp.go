// Symbolic interpreter over go/ssa (DESIGN §2).
package main

import (
	"fmt"
	"go/token"
	"go/types"
	"strings"

	"golang.org/x/tools/go/ssa"
)

type frame struct {
	fn     *ssa.Function
	env    map[ssa.Value]Value
	defers []func()
	block  *ssa.BasicBlock
	prev   *ssa.BasicBlock
	cur    ssa.Instruction
}

type Interp struct {
	w      *World
	g      *G
	frames []*frame
	quiet  int // >0: engine-internal accesses, not program accesses
}

func fnPkg(fn *ssa.Function) *ssa.Package {
	for f := fn; f != nil; f = f.Parent() {
		if f.Pkg != nil {
			return f.Pkg
		}
		if o := f.Origin(); o != nil && o.Pkg != nil {
			return o.Pkg
		}
	}
	return nil
}

func fnName(fn *ssa.Function) string {
	if o := fn.Origin(); o != nil {
		return o.String()
	}
	return fn.String()
}

func (in *Interp) where() string {
	for i := len(in.frames) - 1; i >= 0; i-- {
		fr := in.frames[i]
		if fr.cur != nil {
			pos := in.w.env.prog.Fset.Position(fr.cur.Pos())
			if !pos.IsValid() {
				pos = in.w.env.prog.Fset.Position(fr.fn.Pos())
			}
			file := pos.Filename
			if j := strings.LastIndex(file, "/repo/"); j >= 0 {
				file = file[j+6:]
			}
			return fmt.Sprintf("%s %s:%d", fr.fn.Name(), file, pos.Line)
		}
	}
	return "?"
}

// inLib reports whether the innermost frame with a declared package is library (non-harness repo) code.
func (in *Interp) inLib() bool {
	for i := len(in.frames) - 1; i >= 0; i-- {
		p := fnPkg(in.frames[i].fn)
		if p == nil {
			continue
		}
		path := p.Pkg.Path()
		if strings.HasPrefix(path, in.w.env.repoMod) {
			return !in.w.env.harnessP[path]
		}
	}
	return false
}

func (in *Interp) get(fr *frame, v ssa.Value) Value {
	switch v := v.(type) {
	case *ssa.Const:
		return in.w.constVal(v)
	case *ssa.Function:
		return Closure{fn: v}
	case *ssa.Global:
		return Ptr{obj: in.global(v)}
	case *ssa.Builtin:
		return v
	}
	if x, ok := fr.env[v]; ok {
		return x
	}
	panic(engineErr{"unbound value " + v.Name() + " in " + fr.fn.String()})
}

func (in *Interp) global(g *ssa.Global) *Obj {
	w := in.w
	if o, ok := w.globals[g]; ok {
		return o
	}
	if g.Pkg != nil {
		in.runInit(g.Pkg)
		if o, ok := w.globals[g]; ok {
			return o
		}
	}
	et := g.Type().Underlying().(*types.Pointer).Elem()
	init := w.zero(et)
	if g.Pkg != nil && !strings.HasPrefix(g.Pkg.Pkg.Path(), w.env.repoMod) && strings.HasPrefix(g.Name(), "Err") || g.Name() == "EOF" {
		// sentinel error variables of packages whose initialisers are not run (io.EOF, io.ErrUnexpectedEOF, ...):
		// a distinct errors.New value per variable, as their initialisers create
		if types.Identical(et, types.Universe.Lookup("error").Type()) {
			init = in.newErrorString(g.Pkg.Pkg.Name() + "." + g.Name())
		}
	}
	o := w.newObj(init, "global "+g.Name())
	w.globals[g] = o
	return o
}

func (in *Interp) runInit(p *ssa.Package) {
	w := in.w
	if p == nil || w.inited[p] {
		return
	}
	w.inited[p] = true
	path := p.Pkg.Path()
	if !strings.HasPrefix(path, w.env.repoMod) {
		return
	}
	// dependencies first (imports within the module)
	for _, imp := range p.Pkg.Imports() {
		if ip := w.env.prog.Package(imp); ip != nil && strings.HasPrefix(imp.Path(), w.env.repoMod) {
			in.runInit(ip)
		}
	}
	if f := p.Func("init"); f != nil {
		in.quiet++
		in.call(f, nil, nil)
		in.quiet--
	}
}

func interpretable(fn *ssa.Function, repoMod string) bool {
	p := fnPkg(fn)
	if p == nil {
		return true // synthetic wrapper / thunk / bound method
	}
	path := p.Pkg.Path()
	if strings.HasPrefix(path, repoMod) {
		return true
	}
	switch path {
	case "github.com/bits-and-blooms/bitset", "errors", "strconv", "io",
		"google.golang.org/grpc/status", "google.golang.org/grpc/internal/status", "google.golang.org/grpc/codes", "strings", "bytes", "slices", "sort", "unicode/utf8", "math/bits", "internal/stringslite", "internal/bytealg":
		return true
	case "time":
		if recv := fn.Signature.Recv(); recv != nil && strings.HasSuffix(recv.Type().String(), "time.Duration") {
			return true
		}
	case "fmt":
		if recv := fn.Signature.Recv(); recv != nil && strings.Contains(recv.Type().String(), "wrapError") {
			return true
		}
	case "context":
		if recv := fn.Signature.Recv(); recv != nil && strings.Contains(recv.Type().String(), "deadlineExceededError") {
			return true
		}
	case "math":
		switch fn.Name() {
		case "Abs", "Max", "Min":
			return false
		}
	case "net/http":
		// plain data manipulation on requests (no transport): shallow copy with a new context, context accessor, NoBody
		if recv := fn.Signature.Recv(); recv != nil {
			rs := recv.Type().String()
			if strings.HasSuffix(rs, "net/http.Request") && (fn.Name() == "WithContext" || fn.Name() == "Context") {
				return true
			}
			if strings.HasSuffix(rs, "net/http.noBody") {
				return true
			}
		}
	}
	return false
}

func (in *Interp) call(fn *ssa.Function, args []Value, env []Value) Value {
	w := in.w
	if fn.Name() == "init" && fn.Synthetic != "" {
		// package initialiser: only the module under test, the harness runtime and bitset are initialised
		if p := fnPkg(fn); p != nil {
			path := p.Pkg.Path()
			if !strings.HasPrefix(path, w.env.repoMod) {
				return nil
			}
			if w.inited[p] && len(in.frames) > 0 && in.frames[len(in.frames)-1].fn.Name() == "init" {
				return nil
			}
			w.inited[p] = true
		}
	}
	if v, ok := in.intrinsic(fn, args); ok {
		return v
	}
	if fn.Blocks == nil {
		unsupported("external function without body: %s", fn)
	}
	if !interpretable(fn, w.env.repoMod) {
		unsupported("un-modelled library function: %s", fn)
	}
	if p := fnPkg(fn); p != nil && fn.Name() != "init" {
		in.runInit(p)
	}
	if len(in.frames) > 200 {
		unsupported("call depth > 200 in %s", fn)
	}
	if w.isRepoFn(fn) {
		w.funcs[fn] = true
	}
	fr := &frame{fn: fn, env: make(map[ssa.Value]Value, 16)}
	in.frames = append(in.frames, fr)
	for i, p := range fn.Params {
		fr.env[p] = args[i]
	}
	for i, fv := range fn.FreeVars {
		fr.env[fv] = env[i]
	}
	fr.block = fn.Blocks[0]
	ret := in.exec(fr)
	in.frames = in.frames[:len(in.frames)-1]
	return ret
}

func (in *Interp) exec(fr *frame) Value {
	w := in.w
	for {
		var next *ssa.BasicBlock
		for _, ins := range fr.block.Instrs {
			w.steps++
			fr.cur = ins
			if w.steps > w.env.opts.stepLimit {
				unsupported("step limit %d", w.env.opts.stepLimit)
			}
			switch ins := ins.(type) {
			case *ssa.DebugRef:
			case *ssa.Alloc:
				fr.env[ins] = Ptr{obj: w.newObj(w.zero(ins.Type().Underlying().(*types.Pointer).Elem()), ins.Comment+"@"+fr.fn.Name())}
			case *ssa.FieldAddr:
				p := in.get(fr, ins.X).(Ptr)
				if p.obj == nil {
					panic(goPanic{"nil pointer dereference (field " + fmt.Sprint(ins.Field) + ")"})
				}
				fr.env[ins] = p.field(ins.Field)
			case *ssa.Field:
				fr.env[ins] = copyVal(in.get(fr, ins.X).(Struct)[ins.Field])
			case *ssa.IndexAddr:
				fr.env[ins] = in.indexAddr(fr, ins)
			case *ssa.Index:
				x := in.get(fr, ins.X)
				i := int(w.concretize(in.get(fr, ins.Index).(BV), false, "index"))
				switch x := x.(type) {
				case Array:
					if i < 0 || i >= len(x) {
						panic(goPanic{"index out of range"})
					}
					fr.env[ins] = copyVal(x[i])
				case Str:
					if i < 0 || i >= len(x) {
						panic(goPanic{"index out of range"})
					}
					fr.env[ins] = cbv(8, uint64(x[i]))
				default:
					unsupported("Index on %T", x)
				}
			case *ssa.Lookup:
				x := in.get(fr, ins.X)
				switch x := x.(type) {
				case MapV:
					v, ok := w.mapGet(x, in.get(fr, ins.Index))
					if !ok {
						v = w.zero(ins.X.Type().Underlying().(*types.Map).Elem())
					}
					if ins.CommaOk {
						fr.env[ins] = Tuple{copyVal(v), cbool(ok)}
					} else {
						fr.env[ins] = copyVal(v)
					}
				case Str:
					i := int(w.concretize(in.get(fr, ins.Index).(BV), false, "strindex"))
					if i < 0 || i >= len(x) {
						panic(goPanic{"index out of range"})
					}
					fr.env[ins] = cbv(8, uint64(x[i]))
				default:
					unsupported("Lookup on %T", x)
				}
			case *ssa.MakeMap:
				w.nobj++
				fr.env[ins] = MapV{obj: &MapObj{id: w.nobj}}
			case *ssa.MapUpdate:
				w.mapSet(in.get(fr, ins.Map).(MapV), in.get(fr, ins.Key), in.get(fr, ins.Value))
			case *ssa.Range:
				switch x := in.get(fr, ins.X).(type) {
				case MapV:
					it := &mapIter{}
					if x.obj != nil {
						it.keys = append(it.keys, x.obj.keys...)
						it.vals = append(it.vals, x.obj.vals...)
					}
					fr.env[ins] = it
				default:
					unsupported("Range over %T", x)
				}
			case *ssa.Next:
				it := in.get(fr, ins.Iter).(*mapIter)
				if it.i < len(it.keys) {
					fr.env[ins] = Tuple{cbool(true), it.keys[it.i], it.vals[it.i]}
					it.i++
				} else {
					fr.env[ins] = Tuple{cbool(false), nil, nil}
				}
			case *ssa.Slice:
				fr.env[ins] = in.sliceOp(fr, ins)
			case *ssa.MakeSlice:
				n := int(w.concretize(in.get(fr, ins.Len).(BV), true, "makeslice"))
				c := int(w.concretize(in.get(fr, ins.Cap).(BV), true, "makeslice cap"))
				if n < 0 || c < n {
					panic(goPanic{"makeslice: len out of range"})
				}
				if c > 1<<16 {
					unsupported("makeslice cap %d", c)
				}
				el := ins.Type().Underlying().(*types.Slice).Elem()
				a := make(Array, c)
				for i := range a {
					a[i] = w.zero(el)
				}
				fr.env[ins] = Slice{arr: w.newObj(a, "makeslice@"+fr.fn.Name()), len: n, cap: c}
			case *ssa.MakeChan:
				n := int(w.concretize(in.get(fr, ins.Size).(BV), true, "makechan"))
				w.nchan++
				fr.env[ins] = &Chan{id: w.nchan, cap: n, zero: w.zero(ins.Type().Underlying().(*types.Chan).Elem())}
			case *ssa.UnOp:
				fr.env[ins] = in.unop(fr, ins)
			case *ssa.Store:
				in.store(in.get(fr, ins.Addr).(Ptr), in.get(fr, ins.Val))
			case *ssa.BinOp:
				fr.env[ins] = in.binop(ins.Op, in.get(fr, ins.X), in.get(fr, ins.Y), ins.X.Type())
			case *ssa.Convert:
				fr.env[ins] = in.convert(in.get(fr, ins.X), ins.X.Type(), ins.Type())
			case *ssa.ChangeType:
				fr.env[ins] = in.get(fr, ins.X)
			case *ssa.ChangeInterface:
				fr.env[ins] = in.get(fr, ins.X)
			case *ssa.MakeInterface:
				fr.env[ins] = Iface{t: ins.X.Type(), v: in.get(fr, ins.X)}
			case *ssa.MakeClosure:
				bind := make([]Value, len(ins.Bindings))
				for i, b := range ins.Bindings {
					bind[i] = in.get(fr, b)
				}
				fr.env[ins] = Closure{fn: ins.Fn.(*ssa.Function), env: bind}
			case *ssa.TypeAssert:
				fr.env[ins] = in.typeAssert(fr, ins)
			case *ssa.Extract:
				fr.env[ins] = in.get(fr, ins.Tuple).(Tuple)[ins.Index]
			case *ssa.Phi:
				for i, p := range fr.block.Preds {
					if p == fr.prev {
						fr.env[ins] = in.get(fr, ins.Edges[i])
						break
					}
				}
			case *ssa.Call:
				fr.env[ins] = in.doCall(fr, ins.Common())
			case *ssa.Go:
				cc := ins.Common()
				args := in.evalArgs(fr, cc)
				var target func(in2 *Interp)
				if cc.IsInvoke() {
					recv := in.get(fr, cc.Value).(Iface)
					m := in.methodOf(recv.t, cc.Method)
					target = func(in2 *Interp) { in2.call(m, append([]Value{recv.v}, args...), nil) }
				} else if f, ok := cc.Value.(*ssa.Function); ok {
					target = func(in2 *Interp) { in2.call(f, args, nil) }
				} else {
					cl := in.get(fr, cc.Value)
					target = func(in2 *Interp) { in2.callValue(cl, args) }
				}
				w.spawn(in.g, in.inLib(), in.where(), target)
				w.yield(in.g, "go")
			case *ssa.Defer:
				cc := ins.Common()
				args := in.evalArgs(fr, cc)
				if cc.IsInvoke() {
					recv := in.get(fr, cc.Value).(Iface)
					meth := cc.Method
					fr.defers = append(fr.defers, func() { in.invoke(recv, meth, args) })
				} else if callee, ok := cc.Value.(*ssa.Function); ok {
					fr.defers = append(fr.defers, func() { in.call(callee, args, nil) })
				} else if b, ok := cc.Value.(*ssa.Builtin); ok {
					fr.defers = append(fr.defers, func() { in.builtin(b, args, cc) })
				} else {
					v := in.get(fr, cc.Value)
					fr.defers = append(fr.defers, func() { in.callValue(v, args) })
				}
			case *ssa.RunDefers:
				for i := len(fr.defers) - 1; i >= 0; i-- {
					fr.defers[i]()
				}
				fr.defers = nil
			case *ssa.Send:
				in.chanSend(in.get(fr, ins.Chan).(*Chan), in.get(fr, ins.X))
			case *ssa.Select:
				fr.env[ins] = in.selectOp(fr, ins)
			case *ssa.Panic:
				x := in.get(fr, ins.X)
				panic(goPanic{"explicit panic: " + describe(x)})
			case *ssa.If:
				c := in.get(fr, ins.Cond).(Bool)
				if w.decide(c) {
					next = fr.block.Succs[0]
				} else {
					next = fr.block.Succs[1]
				}
			case *ssa.Jump:
				next = fr.block.Succs[0]
			case *ssa.Return:
				switch len(ins.Results) {
				case 0:
					return nil
				case 1:
					return in.get(fr, ins.Results[0])
				}
				t := make(Tuple, len(ins.Results))
				for i, r := range ins.Results {
					t[i] = in.get(fr, r)
				}
				return t
			default:
				unsupported("instruction %T in %s", ins, fr.fn)
			}
		}
		if next == nil {
			panic(engineErr{"fell off block in " + fr.fn.String()})
		}
		fr.prev = fr.block
		fr.block = next
	}
}

type mapIter struct {
	keys, vals []Value
	i          int
}

func (in *Interp) indexAddr(fr *frame, ins *ssa.IndexAddr) Value {
	w := in.w
	x := in.get(fr, ins.X)
	idxv := in.get(fr, ins.Index).(BV)
	_, signed, _ := intWidth(ins.Index.Type())
	var n int
	switch x := x.(type) {
	case Slice:
		n = x.len
	case Ptr:
		if x.obj == nil {
			panic(goPanic{"nil pointer dereference (indexaddr)"})
		}
		n = int(ins.X.Type().Underlying().(*types.Pointer).Elem().Underlying().(*types.Array).Len())
	default:
		unsupported("IndexAddr on %T", x)
	}
	var i int64
	if idxv.t != nil {
		// bounds obligation forks a panic path
		inb := w.tf.bvCmp("lt", w.tf.bvConv(idxv, 64, signed), cbv(64, uint64(n)), false)
		if !w.decide(inb) {
			panic(goPanic{"index out of range (symbolic index)"})
		}
		if w.env.opts.symIdx && n > 1 && n <= 64 {
			// keep the index symbolic: loads/stores through this pointer become ite-chains over the n elements
			switch x := x.(type) {
			case Slice:
				if x.off == 0 {
					return Ptr{obj: x.arr, path: []int{0}, sym: &symIdx{pos: 0, idx: idxv, n: n}}
				}
			case Ptr:
				if x.sym == nil {
					np := x.field(0)
					np.sym = &symIdx{pos: len(np.path) - 1, idx: idxv, n: n}
					return np
				}
			}
		}
		i = w.concretize(idxv, signed, "index")
	} else if signed {
		i = sext(idxv.v, idxv.w)
	} else {
		i = int64(idxv.v)
	}
	if i < 0 || i >= int64(n) {
		panic(goPanic{fmt.Sprintf("index out of range [%d] with length %d", i, n)})
	}
	switch x := x.(type) {
	case Slice:
		return Ptr{obj: x.arr, path: []int{x.off + int(i)}}
	case Ptr:
		return x.field(int(i))
	}
	return nil
}

func (in *Interp) sliceOp(fr *frame, ins *ssa.Slice) Value {
	w := in.w
	idx := func(v ssa.Value, def int) int {
		if v == nil {
			return def
		}
		return int(w.concretize(in.get(fr, v).(BV), true, "slice bound"))
	}
	switch x := in.get(fr, ins.X).(type) {
	case Ptr: // *array
		if x.obj == nil {
			panic(goPanic{"nil pointer dereference (slice)"})
		}
		if len(x.path) != 0 {
			unsupported("slice of nested array")
		}
		arr := x.obj.v.(Array)
		lo, hi := idx(ins.Low, 0), idx(ins.High, len(arr))
		mx := idx(ins.Max, len(arr))
		if lo < 0 || hi < lo || hi > len(arr) || mx > len(arr) {
			panic(goPanic{"slice bounds out of range"})
		}
		return Slice{arr: x.obj, off: lo, len: hi - lo, cap: mx - lo}
	case Slice:
		lo, hi := idx(ins.Low, 0), idx(ins.High, x.len)
		mx := idx(ins.Max, x.cap)
		if lo < 0 || hi < lo || hi > x.cap || mx > x.cap {
			panic(goPanic{"slice bounds out of range"})
		}
		if x.arr == nil {
			return Slice{}
		}
		return Slice{arr: x.arr, off: x.off + lo, len: hi - lo, cap: mx - lo}
	case Str:
		lo, hi := idx(ins.Low, 0), idx(ins.High, len(x))
		if lo < 0 || hi < lo || hi > len(x) {
			panic(goPanic{"slice bounds out of range"})
		}
		return x[lo:hi]
	default:
		unsupported("slice of %T", x)
	}
	return nil
}

func (in *Interp) unop(fr *frame, ins *ssa.UnOp) Value {
	w := in.w
	x := in.get(fr, ins.X)
	switch ins.Op {
	case token.MUL:
		return in.load(x.(Ptr))
	case token.NOT:
		return w.tf.not(x.(Bool))
	case token.SUB:
		switch b := x.(type) {
		case BV:
			return w.tf.bvNeg(b)
		case FP:
			return w.tf.fpNeg(b)
		}
	case token.XOR:
		return w.tf.bvNot(x.(BV))
	case token.ARROW:
		v, ok := in.chanRecv(x.(*Chan), ins.X.Type())
		if ins.CommaOk {
			return Tuple{v, cbool(ok)}
		}
		return v
	}
	unsupported("unop %s on %T", ins.Op, x)
	return nil
}

func (in *Interp) binop(op token.Token, x, y Value, t types.Type) Value {
	tf := &in.w.tf
	switch a := x.(type) {
	case BV:
		b := y.(BV)
		_, signed, _ := intWidth(t)
		if op == token.SHL || op == token.SHR {
			if b.w != a.w {
				// shift count is unsigned (or non-negative); normalise to the operand width with saturation
				if b.t == nil {
					v := b.v
					if v > 64 {
						v = 64
					}
					b = cbv(a.w, v)
					if a.w < 8 && v >= uint64(1)<<uint(a.w) {
						b = cbv(a.w, mask(a.w))
					}
				} else if b.w < a.w {
					b = tf.bvConv(b, a.w, false)
				} else {
					big := tf.bvCmp("ge", b, cbv(b.w, uint64(a.w)), false)
					b = tf.iteBV(big, cbv(a.w, uint64(a.w)), tf.bvConv(b, a.w, false))
				}
			}
			if op == token.SHL {
				return tf.bvBin("shl", a, b, signed)
			}
			return tf.bvBin("shr", a, b, signed)
		}
		switch op {
		case token.ADD:
			return tf.bvBin("add", a, b, signed)
		case token.SUB:
			return tf.bvBin("sub", a, b, signed)
		case token.MUL:
			return tf.bvBin("mul", a, b, signed)
		case token.QUO, token.REM:
			if b.t != nil {
				nz := tf.bvCmp("ne", b, cbv(b.w, 0), false)
				if !in.w.decide(nz) {
					panic(goPanic{"integer divide by zero"})
				}
			}
			if op == token.QUO {
				return tf.bvBin("div", a, b, signed)
			}
			return tf.bvBin("rem", a, b, signed)
		case token.AND:
			return tf.bvBin("and", a, b, signed)
		case token.OR:
			return tf.bvBin("or", a, b, signed)
		case token.XOR:
			return tf.bvBin("xor", a, b, signed)
		case token.AND_NOT:
			return tf.bvBin("andnot", a, b, signed)
		case token.EQL:
			return tf.bvCmp("eq", a, b, signed)
		case token.NEQ:
			return tf.bvCmp("ne", a, b, signed)
		case token.LSS:
			return tf.bvCmp("lt", a, b, signed)
		case token.LEQ:
			return tf.bvCmp("le", a, b, signed)
		case token.GTR:
			return tf.bvCmp("gt", a, b, signed)
		case token.GEQ:
			return tf.bvCmp("ge", a, b, signed)
		}
	case FP:
		b := y.(FP)
		switch op {
		case token.ADD:
			return tf.fpBin("add", a, b)
		case token.SUB:
			return tf.fpBin("sub", a, b)
		case token.MUL:
			return tf.fpBin("mul", a, b)
		case token.QUO:
			return tf.fpBin("div", a, b)
		case token.EQL:
			return tf.fpCmp("eq", a, b)
		case token.NEQ:
			return tf.fpCmp("ne", a, b)
		case token.LSS:
			return tf.fpCmp("lt", a, b)
		case token.LEQ:
			return tf.fpCmp("le", a, b)
		case token.GTR:
			return tf.fpCmp("gt", a, b)
		case token.GEQ:
			return tf.fpCmp("ge", a, b)
		}
	case Bool:
		b := y.(Bool)
		switch op {
		case token.EQL:
			return tf.boolEq(a, b)
		case token.NEQ:
			return tf.not(tf.boolEq(a, b))
		case token.AND:
			return tf.and(a, b)
		case token.OR:
			return tf.or(a, b)
		}
	case Str:
		b := y.(Str)
		switch op {
		case token.ADD:
			return a + b
		case token.EQL:
			return cbool(a == b)
		case token.NEQ:
			return cbool(a != b)
		case token.LSS:
			return cbool(a < b)
		case token.LEQ:
			return cbool(a <= b)
		case token.GTR:
			return cbool(a > b)
		case token.GEQ:
			return cbool(a >= b)
		}
	}
	switch op {
	case token.EQL:
		return in.w.equal(x, y)
	case token.NEQ:
		return tf.not(in.w.equal(x, y))
	}
	unsupported("binop %v on %T", op, x)
	return nil
}

func (in *Interp) convert(v Value, from, to types.Type) Value {
	tf := &in.w.tf
	switch x := v.(type) {
	case BV:
		_, sgn, _ := intWidth(from)
		if wd, _, ok := intWidth(to); ok {
			return tf.bvConv(x, wd, sgn)
		}
		if fb := floatBits(to); fb != 0 {
			return tf.intToFP(x, sgn, fb)
		}
		if b, ok := to.Underlying().(*types.Basic); ok && b.Info()&types.IsString != 0 {
			if x.t == nil {
				return Str(string(rune(sext(x.v, x.w))))
			}
		}
	case FP:
		if fb := floatBits(to); fb != 0 {
			return tf.fpConv(x, fb)
		}
		if wd, sgn, ok := intWidth(to); ok {
			return tf.fpToInt(x, wd, sgn)
		}
	case Str:
		if _, ok := to.Underlying().(*types.Basic); ok {
			return x
		}
		if sl, ok := to.Underlying().(*types.Slice); ok {
			if wd, _, ok := intWidth(sl.Elem()); ok && wd == 8 {
				a := make(Array, len(x))
				for i := range a {
					a[i] = cbv(8, uint64(x[i]))
				}
				return Slice{arr: in.w.newObj(a, "[]byte(string)"), len: len(a), cap: len(a)}
			}
		}
	case Slice:
		if b, ok := to.Underlying().(*types.Basic); ok && b.Info()&types.IsString != 0 {
			bs := make([]byte, x.len)
			for i := 0; i < x.len; i++ {
				e := x.arr.v.(Array)[x.off+i].(BV)
				bs[i] = byte(in.w.concretize(e, false, "string(bytes)"))
			}
			return Str(bs)
		}
	case Ptr, nil:
		return v // unsafe.Pointer conversions
	}
	unsupported("convert %T from %s to %s", v, from, to)
	return nil
}

func (in *Interp) typeAssert(fr *frame, ins *ssa.TypeAssert) Value {
	w := in.w
	x := in.get(fr, ins.X).(Iface)
	ok := false
	it, isI := ins.AssertedType.Underlying().(*types.Interface)
	if x.t != nil {
		if isI {
			ok = types.Implements(x.t, it)
		} else {
			ok = types.Identical(x.t, ins.AssertedType)
		}
	}
	var res Value
	if isI {
		res = x
		if !ok {
			res = Iface{}
		}
	} else {
		res = x.v
		if !ok {
			res = w.zero(ins.AssertedType)
		}
	}
	if ins.CommaOk {
		return Tuple{res, cbool(ok)}
	}
	if !ok {
		panic(goPanic{"type assertion failed: " + ins.String()})
	}
	return res
}

func (in *Interp) evalArgs(fr *frame, cc *ssa.CallCommon) []Value {
	args := make([]Value, len(cc.Args))
	for i, a := range cc.Args {
		args[i] = in.get(fr, a)
	}
	return args
}

func (in *Interp) callValue(v Value, args []Value) Value {
	switch f := v.(type) {
	case Closure:
		if f.fn == nil {
			panic(goPanic{"call of nil func"})
		}
		return in.call(f.fn, args, f.env)
	case cancelFn:
		return in.callCancel(f, args)
	case nativeFn:
		return f.f(in, args)
	case nil:
		panic(goPanic{"call of nil func"})
	}
	panic(engineErr{fmt.Sprintf("callValue %T", v)})
}

func (in *Interp) methodOf(t types.Type, m *types.Func) *ssa.Function {
	sel := in.w.env.prog.MethodSets.MethodSet(t).Lookup(m.Pkg(), m.Name())
	if sel == nil {
		panic(engineErr{"no method " + m.Name() + " on " + t.String()})
	}
	return in.w.env.prog.MethodValue(sel)
}

func (in *Interp) invoke(recv Iface, meth *types.Func, args []Value) Value {
	if recv.t == nil {
		panic(goPanic{"invoke " + meth.Name() + " on nil interface"})
	}
	if v, ok := in.nativeInvoke(recv, meth.Name(), args); ok {
		return v
	}
	return in.call(in.methodOf(recv.t, meth), append([]Value{recv.v}, args...), nil)
}

func (in *Interp) doCall(fr *frame, cc *ssa.CallCommon) Value {
	args := in.evalArgs(fr, cc)
	if cc.IsInvoke() {
		return in.invoke(in.get(fr, cc.Value).(Iface), cc.Method, args)
	}
	if f, ok := cc.Value.(*ssa.Function); ok {
		return in.call(f, args, nil)
	}
	if b, ok := cc.Value.(*ssa.Builtin); ok {
		return in.builtin(b, args, cc)
	}
	return in.callValue(in.get(fr, cc.Value), args)
}

func (in *Interp) builtin(b *ssa.Builtin, args []Value, cc *ssa.CallCommon) Value {
	w := in.w
	tf := &w.tf
	switch b.Name() {
	case "len":
		switch x := args[0].(type) {
		case Slice:
			return cbv(64, uint64(x.len))
		case Str:
			return cbv(64, uint64(len(x)))
		case *Chan:
			if x == nil {
				return cbv(64, 0)
			}
			return cbv(64, uint64(len(x.buf)))
		case MapV:
			if x.obj == nil {
				return cbv(64, 0)
			}
			return cbv(64, uint64(len(x.obj.keys)))
		case Array:
			return cbv(64, uint64(len(x)))
		case Ptr:
			return cbv(64, uint64(cc.Args[0].Type().Underlying().(*types.Pointer).Elem().Underlying().(*types.Array).Len()))
		}
	case "cap":
		switch x := args[0].(type) {
		case Slice:
			return cbv(64, uint64(x.cap))
		case *Chan:
			if x == nil {
				return cbv(64, 0)
			}
			return cbv(64, uint64(x.cap))
		}
	case "recover":
		return Iface{}
	case "max", "min":
		pickMax := b.Name() == "max"
		acc := args[0]
		for _, y := range args[1:] {
			switch x := acc.(type) {
			case BV:
				_, signed, _ := intWidth(cc.Args[0].Type())
				lt := tf.bvCmp("lt", x, y.(BV), signed)
				if pickMax {
					acc = tf.iteBV(lt, y.(BV), x)
				} else {
					acc = tf.iteBV(lt, x, y.(BV))
				}
			case FP:
				lt := tf.fpCmp("lt", x, y.(FP))
				if pickMax {
					acc = tf.iteFP(lt, y.(FP), x)
				} else {
					acc = tf.iteFP(lt, x, y.(FP))
				}
			default:
				unsupported("min/max on %T", x)
			}
		}
		return acc
	case "close":
		in.chanClose(args[0].(*Chan))
		return nil
	case "append":
		s := args[0].(Slice)
		var add Array
		switch t := args[1].(type) {
		case Slice:
			if t.arr != nil {
				add = t.arr.v.(Array)[t.off : t.off+t.len]
			}
		case Str:
			for i := 0; i < len(t); i++ {
				add = append(add, cbv(8, uint64(t[i])))
			}
		}
		if len(add) == 0 {
			return s
		}
		if s.arr != nil && s.len+len(add) <= s.cap {
			arr := s.arr.v.(Array)
			for i, e := range add {
				in.hbAccess(Ptr{obj: s.arr, path: []int{s.off + s.len + i}}, true)
				arr[s.off+s.len+i] = copyVal(e)
			}
			return Slice{arr: s.arr, off: s.off, len: s.len + len(add), cap: s.cap}
		}
		ncap := s.len + len(add)
		if ncap < 2*s.cap {
			ncap = 2 * s.cap
		}
		na := make(Array, ncap)
		el := cc.Args[0].Type().Underlying().(*types.Slice).Elem()
		for i := range na {
			switch {
			case i < s.len:
				na[i] = copyVal(s.arr.v.(Array)[s.off+i])
			case i < s.len+len(add):
				na[i] = copyVal(add[i-s.len])
			default:
				na[i] = w.zero(el)
			}
		}
		return Slice{arr: w.newObj(na, "append"), len: s.len + len(add), cap: ncap}
	case "copy":
		d := args[0].(Slice)
		n := 0
		switch s := args[1].(type) {
		case Slice:
			n = d.len
			if s.len < n {
				n = s.len
			}
			tmp := make(Array, n)
			for i := 0; i < n; i++ {
				tmp[i] = copyVal(s.arr.v.(Array)[s.off+i])
			}
			for i := 0; i < n; i++ {
				d.arr.v.(Array)[d.off+i] = tmp[i]
			}
		case Str:
			n = d.len
			if len(s) < n {
				n = len(s)
			}
			for i := 0; i < n; i++ {
				d.arr.v.(Array)[d.off+i] = cbv(8, uint64(s[i]))
			}
		}
		return cbv(64, uint64(n))
	case "delete":
		w.mapDelete(args[0].(MapV), args[1])
		return nil
	case "print", "println":
		return nil
	case "panic":
		panic(goPanic{"explicit panic: " + describe(args[0])})
	}
	unsupported("builtin %s", b.Name())
	return nil
}

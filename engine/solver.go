// Solver back-end: one long-lived process per worker, text SMT-LIB2 over pipes,
// (reset) + full assertion list per query (see DESIGN §2.4).
package main

import (
	"bufio"
	"fmt"
	"io"
	"math"
	"os"
	"os/exec"
	"strconv"
	"strings"
	"sync"
	"sync/atomic"
	"time"
)

var solverProfiles = map[string][]string{
	"z3":      {"z3", "-in"},
	"z3new":   {"z3-new", "-in"},
	"cvc5":    {"cvc5", "--incremental", "--produce-models", "--fp-exp"},
	"cvc5int": {"cvc5", "--incremental", "--produce-models", "--solve-bv-as-int=sum"},
}

type SolverStats struct {
	sat, unsat, unknown, cacheHits int64
	nanos                          int64
	mu                             sync.Mutex
	perBackend                     map[string]*[3]int64 // wins, failures, nanos
}

func (g *SolverStats) note(name string, win bool, d time.Duration) {
	g.mu.Lock()
	defer g.mu.Unlock()
	if g.perBackend == nil {
		g.perBackend = map[string]*[3]int64{}
	}
	e := g.perBackend[name]
	if e == nil {
		e = &[3]int64{}
		g.perBackend[name] = e
	}
	if win {
		e[0]++
	} else {
		e[1]++
	}
	e[2] += int64(d)
}

var gstats SolverStats
var slowN int64

// Solver is a sequential portfolio: the first back-end gets a short time slice, later ones the
// full query timeout; the first definite answer wins.
type Solver struct {
	backs   []*backend
	order   []int
	timeout  time.Duration
	deadline time.Time // hard stop for the job: later queries are answered "inconclusive" at once
	cache    map[string]string
}

func newSolver(profiles string, timeout time.Duration) *Solver {
	s := &Solver{cache: map[string]string{}, timeout: timeout}
	names := strings.Split(profiles, ",")
	for i, p := range names {
		argv, ok := solverProfiles[strings.TrimSpace(p)]
		if !ok {
			argv = strings.Fields(p)
		}
		s.backs = append(s.backs, &backend{argv: argv, timeout: timeout})
		s.order = append(s.order, i)
	}
	return s
}

func (s *Solver) close() {
	for _, b := range s.backs {
		b.kill()
	}
}

func (s *Solver) check(asserts []*Term, negLast bool, vals []*Term) (string, map[*Term]string) {
	roots := append([]*Term{}, asserts...)
	roots = append(roots, vals...)
	var sb strings.Builder
	sb.WriteString(emit(roots))
	for i, a := range asserts {
		if negLast && i == len(asserts)-1 {
			fmt.Fprintf(&sb, "(assert (not %s))\n", a.name)
		} else {
			fmt.Fprintf(&sb, "(assert %s)\n", a.name)
		}
	}
	body := sb.String()
	if !s.deadline.IsZero() && time.Now().After(s.deadline) {
		atomic.AddInt64(&gstats.unknown, 1)
		return "inconclusive(job deadline)", nil
	}
	if len(vals) == 0 {
		if r, ok := s.cache[body]; ok {
			atomic.AddInt64(&gstats.cacheHits, 1)
			return r, nil
		}
	}
	last := ""
	try := func(i int, to time.Duration, final bool) (string, map[*Term]string, bool) {
		b := s.backs[i]
		// a back-end that keeps timing out on this job gets shorter and shorter slices (never the last resort)
		if !final && b.penalty > 0 {
			to = to >> uint(b.penalty)
			if to < 2*time.Second {
				to = 2 * time.Second
			}
		}
		b.timeout = to
		tq := time.Now()
		r, m := b.check(body, vals)
		gstats.note(b.argv[0]+" "+strings.Join(b.argv[len(b.argv)-1:], ""), r == "sat" || r == "unsat", time.Since(tq))
		if r == "sat" || r == "unsat" {
			if r == "sat" {
				atomic.AddInt64(&gstats.sat, 1)
			} else {
				atomic.AddInt64(&gstats.unsat, 1)
			}
			if len(vals) == 0 {
				s.cache[body] = r
			}
			b.penalty = 0
			// winner moves to the front
			for k, x := range s.order {
				if x == i {
					copy(s.order[1:k+1], s.order[:k])
					s.order[0] = i
				}
			}
			return r, m, true
		}
		last = r
		if b.penalty < 5 {
			b.penalty++
		}
		return r, nil, false
	}
	order := append([]int{}, s.order...)
	slice := s.timeout
	if len(order) > 1 && slice > 10*time.Second {
		slice = 10 * time.Second
	}
	if r, m, ok := try(order[0], slice, len(order) == 1); ok {
		return r, m
	}
	for _, i := range order[1:] {
		if r, m, ok := try(i, s.timeout, false); ok {
			return r, m
		}
	}
	if slice < s.timeout {
		if r, m, ok := try(order[0], s.timeout, true); ok {
			return r, m
		}
	}
	atomic.AddInt64(&gstats.unknown, 1)
	return last, nil
}

type backend struct {
	penalty int
	argv    []string
	cmd     *exec.Cmd
	in      io.WriteCloser
	out     *bufio.Reader
	timeout time.Duration
	mu      sync.Mutex
	log     io.Writer
}

func (s *backend) start() {
	cmd := exec.Command(s.argv[0], s.argv[1:]...)
	in, _ := cmd.StdinPipe()
	out, _ := cmd.StdoutPipe()
	cmd.Stderr = io.Discard
	if err := cmd.Start(); err != nil {
		panic(err)
	}
	s.cmd, s.in, s.out = cmd, in, bufio.NewReaderSize(out, 1<<16)
}

func (s *backend) kill() {
	if s.cmd != nil && s.cmd.Process != nil {
		s.cmd.Process.Kill()
		s.cmd.Wait()
	}
}


// readLine reads one line with the solver's timeout; on timeout the process is restarted.
func (s *backend) readLine() (string, bool) {
	type res struct {
		l   string
		err error
	}
	ch := make(chan res, 1)
	out := s.out
	go func() {
		l, err := out.ReadString('\n')
		ch <- res{l, err}
	}()
	select {
	case r := <-ch:
		if r.err != nil {
			s.kill()
			s.start()
			return "error: solver died", false
		}
		return strings.TrimSpace(r.l), true
	case <-time.After(s.timeout):
		s.kill()
		s.start()
		return "timeout", false
	}
}

// check runs one query on this back-end. Result is "sat", "unsat" or an inconclusive string.
func (s *backend) check(body string, vals []*Term) (string, map[*Term]string) {
	if s.cmd == nil {
		s.start()
	}
	t0 := time.Now()
	fmt.Fprint(s.in, "(reset)\n(set-option :produce-models true)\n")
	fmt.Fprint(s.in, body)
	fmt.Fprint(s.in, "(check-sat)\n")
	if s.log != nil {
		fmt.Fprintf(s.log, "; ---- query\n%s(check-sat)\n", body)
	}
	line, ok := s.readLine()
	for ok && (line == "" || strings.HasPrefix(line, ";")) {
		line, ok = s.readLine()
	}
	atomic.AddInt64(&gstats.nanos, int64(time.Since(t0)))
	if d := os.Getenv("SYMGO_SLOWQ"); d != "" && time.Since(t0) > 5*time.Second {
		n := atomic.AddInt64(&slowN, 1)
		os.WriteFile(fmt.Sprintf("%s/slow%d_%s.smt2", d, n, line), []byte("; "+strings.Join(s.argv, " ")+"\n"+body+"(check-sat)\n"), 0644)
	}
	switch line {
	case "sat", "unsat":
	default:
		if ok {
			// drain: restart to be safe after an error line
			s.kill()
			s.start()
		}
		return "inconclusive(" + line + ")", nil
	}
	if len(vals) == 0 || line != "sat" {
		return line, nil
	}
	names := make([]string, len(vals))
	for i, v := range vals {
		names[i] = v.name
	}
	fmt.Fprintf(s.in, "(get-value (%s))\n", strings.Join(names, " "))
	depth, res := 0, ""
	for {
		l, ok := s.readLine()
		if !ok {
			return "inconclusive(model)", nil
		}
		res += l + " "
		depth += strings.Count(l, "(") - strings.Count(l, ")")
		if depth <= 0 && strings.TrimSpace(res) != "" {
			break
		}
	}
	if strings.Contains(res, "(error") {
		s.kill()
		s.start()
		return "inconclusive(model error)", nil
	}
	m := map[*Term]string{}
	parsed := parseGetValue(res)
	for _, v := range vals {
		if x, ok := parsed[v.name]; ok {
			m[v] = x
		}
	}
	return line, m
}

// parseGetValue parses "((name value) (name value) ...)" into name → raw value text.
func parseGetValue(s string) map[string]string {
	out := map[string]string{}
	toks := tokenize(s)
	// toks[0] == "("
	i := 1
	for i < len(toks) && toks[i] == "(" {
		i++
		name := toks[i]
		i++
		start := i
		depth := 0
		for i < len(toks) {
			if toks[i] == "(" {
				depth++
			} else if toks[i] == ")" {
				if depth == 0 {
					break
				}
				depth--
			}
			i++
		}
		out[name] = strings.Join(toks[start:i], " ")
		i++ // closing paren of pair
	}
	return out
}

func tokenize(s string) []string {
	var toks []string
	cur := ""
	for _, r := range s {
		switch r {
		case '(', ')':
			if cur != "" {
				toks = append(toks, cur)
				cur = ""
			}
			toks = append(toks, string(r))
		case ' ', '\n', '\t', '\r':
			if cur != "" {
				toks = append(toks, cur)
				cur = ""
			}
		default:
			cur += string(r)
		}
	}
	if cur != "" {
		toks = append(toks, cur)
	}
	return toks
}

// decodeValue turns a raw model value into a Go value for a term of the given sort:
// uint64 for bit-vectors, bool, float64 for FP.
func decodeValue(sort, raw string) (interface{}, bool) {
	raw = strings.TrimSpace(raw)
	switch {
	case sort == sortBool:
		return raw == "true", raw == "true" || raw == "false"
	case strings.HasPrefix(sort, "(_ BitVec"):
		return decodeBV(raw)
	case strings.HasPrefix(sort, "(_ FloatingPoint"):
		t := tokenize(raw)
		// ( fp #b. #b... #b... )
		if len(t) >= 5 && t[1] == "fp" {
			sg, ok1 := decodeBV(t[2])
			ex, ok2 := decodeBV(t[3])
			mn, ok3 := decodeBV(t[4])
			if !(ok1 && ok2 && ok3) {
				return nil, false
			}
			if strings.Contains(sort, "11 53") {
				return math.Float64frombits(sg.(uint64)<<63 | ex.(uint64)<<52 | mn.(uint64)), true
			}
			return float64(math.Float32frombits(uint32(sg.(uint64)<<31 | ex.(uint64)<<23 | mn.(uint64)))), true
		}
		if len(t) >= 3 && t[1] == "_" {
			switch t[2] {
			case "+zero":
				return 0.0, true
			case "-zero":
				return math.Copysign(0, -1), true
			case "+oo":
				return math.Inf(1), true
			case "-oo":
				return math.Inf(-1), true
			case "NaN":
				return math.NaN(), true
			}
		}
	}
	return nil, false
}

func decodeBV(raw string) (interface{}, bool) {
	raw = strings.TrimSpace(raw)
	if strings.HasPrefix(raw, "#x") {
		v, err := strconv.ParseUint(raw[2:], 16, 64)
		return v, err == nil
	}
	if strings.HasPrefix(raw, "#b") {
		v, err := strconv.ParseUint(raw[2:], 2, 64)
		return v, err == nil
	}
	t := tokenize(raw)
	if len(t) >= 4 && t[1] == "_" && strings.HasPrefix(t[2], "bv") {
		v, err := strconv.ParseUint(t[2][2:], 10, 64)
		return v, err == nil
	}
	return nil, false
}

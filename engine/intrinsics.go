// Environment model: the trusted base (DESIGN §3). Everything here replaces Go runtime /
// stdlib behaviour by its documented contract; library code itself always runs from SSA.
package main

import (
	"fmt"
	"strconv"
	"go/types"
	"strings"

	"golang.org/x/tools/go/ssa"
)

type RType struct{ t types.Type }
type cancelFn struct {
	c     *Ctx
	cause bool
}
type nativeFn struct {
	name string
	f    func(in *Interp, args []Value) Value
}

// maybeYield is a scheduling point before a synchronisation operation.
func (in *Interp) maybeYield(why string) {
	w := in.w
	if in.quiet > 0 {
		return
	}
	others := false
	for _, g := range w.gs {
		if g != in.g && !g.done {
			others = true
			break
		}
	}
	if !others {
		for _, t := range w.timers {
			if t.active {
				others = true
				break
			}
		}
	}
	if !others {
		return
	}
	w.yield(in.g, why+" @ "+in.where())
}

// ---------------- channels ----------------

func recvReady(ch *Chan) bool {
	if ch == nil {
		return false
	}
	if len(ch.buf) > 0 || ch.closed {
		return true
	}
	for _, o := range ch.offers {
		if !o.taken {
			return true
		}
	}
	return false
}
func sendReady(ch *Chan) bool {
	if ch == nil {
		return false
	}
	return ch.closed || len(ch.buf) < ch.cap
}

func (in *Interp) takeFrom(ch *Chan) (Value, bool) {
	g := in.g
	if len(ch.buf) > 0 {
		v := ch.buf[0]
		ch.buf = ch.buf[1:]
		if len(ch.vcsq) > 0 {
			g.vc.join(ch.vcsq[0])
			ch.vcsq = ch.vcsq[1:]
		}
		return v, true
	}
	for _, o := range ch.offers {
		if !o.taken {
			o.taken = true
			g.vc.join(o.vc)
			return o.v, true
		}
	}
	if ch.closeVC != nil {
		g.vc.join(ch.closeVC)
	}
	return copyVal(ch.zero), false
}

func (in *Interp) chanRecv(ch *Chan, t types.Type) (Value, bool) {
	w := in.w
	in.maybeYield("recv")
	for !recvReady(ch) {
		w.block(in.g, "recv", func() bool { return recvReady(ch) })
	}
	return in.takeFrom(ch)
}

func (in *Interp) putInto(ch *Chan, v Value) {
	g := in.g
	ch.buf = append(ch.buf, copyVal(v))
	ch.vcsq = append(ch.vcsq, g.vc.cp())
	g.vc[g.id]++
}

func (in *Interp) chanSend(ch *Chan, v Value) {
	w := in.w
	in.maybeYield("send")
	if ch == nil {
		w.block(in.g, "send on nil chan", func() bool { return false })
	}
	if ch.closed {
		panic(goPanic{"send on closed channel"})
	}
	if ch.cap == 0 {
		o := &offer{g: in.g, v: copyVal(v), vc: in.g.vc.cp()}
		in.g.vc[in.g.id]++
		ch.offers = append(ch.offers, o)
		for !o.taken {
			if ch.closed {
				panic(goPanic{"send on closed channel"})
			}
			w.block(in.g, "send(unbuffered)", func() bool { return o.taken || ch.closed })
		}
		return
	}
	for len(ch.buf) >= ch.cap {
		w.block(in.g, "send", func() bool { return len(ch.buf) < ch.cap || ch.closed })
		if ch.closed {
			panic(goPanic{"send on closed channel"})
		}
	}
	in.putInto(ch, v)
}

func (in *Interp) chanClose(ch *Chan) {
	in.maybeYield("close")
	if ch == nil {
		panic(goPanic{"close of nil channel"})
	}
	if ch.closed {
		panic(goPanic{"close of closed channel"})
	}
	ch.closed = true
	ch.closeVC = in.g.vc.cp()
	in.g.vc[in.g.id]++
}

func (in *Interp) selectOp(fr *frame, ins *ssa.Select) Value {
	w := in.w
	type st struct {
		ch   *Chan
		send bool
		val  Value
	}
	states := make([]st, len(ins.States))
	for i, s := range ins.States {
		x := st{send: s.Dir == types.SendOnly}
		if c := in.get(fr, s.Chan); c != nil {
			x.ch, _ = c.(*Chan)
		}
		if x.send {
			x.val = in.get(fr, s.Send)
			if x.ch != nil && x.ch.cap == 0 {
				unsupported("select with send on unbuffered channel")
			}
		}
		states[i] = x
	}
	readyIdx := func() []int {
		var r []int
		for i, s := range states {
			if s.ch == nil {
				continue
			}
			if s.send && sendReady(s.ch) {
				r = append(r, i)
			}
			if !s.send && recvReady(s.ch) {
				r = append(r, i)
			}
		}
		return r
	}
	in.maybeYield("select")
	rd := readyIdx()
	for len(rd) == 0 && ins.Blocking {
		w.block(in.g, "select", func() bool { return len(readyIdx()) > 0 })
		rd = readyIdx()
	}
	chosen := -1
	if len(rd) == 1 {
		chosen = rd[0]
	} else if len(rd) > 1 {
		chosen = rd[w.choose(trues(len(rd)), "select")]
	}
	res := Tuple{cbv(64, uint64(int64(chosen))), cbool(false)}
	for i, s := range states {
		if s.send {
			continue
		}
		var v Value
		if s.ch != nil {
			v = copyVal(s.ch.zero)
		} else {
			v = w.zero(ins.States[i].Chan.Type().Underlying().(*types.Chan).Elem())
		}
		if i == chosen {
			var ok bool
			v, ok = in.takeFrom(s.ch)
			res[1] = cbool(ok)
		}
		res = append(res, v)
	}
	if chosen >= 0 && states[chosen].send {
		c := states[chosen].ch
		if c.closed {
			panic(goPanic{"send on closed channel"})
		}
		in.putInto(c, states[chosen].val)
	}
	return res
}

// ---------------- contexts ----------------

func (w *World) ctxIface(c *Ctx) Value {
	switch c.kind {
	case "background":
		return Iface{t: w.env.types["context.backgroundCtx"], v: c}
	case "todo":
		return Iface{t: w.env.types["context.todoCtx"], v: c}
	case "value":
		return Iface{t: types.NewPointer(w.env.types["context.valueCtx"]), v: c}
	case "deadline":
		return Iface{t: types.NewPointer(w.env.types["context.timerCtx"]), v: c}
	}
	return Iface{t: types.NewPointer(w.env.types["context.cancelCtx"]), v: c}
}

func (w *World) cancelCtx(c *Ctx, err Value, cause Value, vc VC) {
	if c.err != nil {
		return
	}
	c.err = err
	if cause == nil {
		cause = err
	}
	c.cause = cause
	if c.done == nil {
		w.nchan++
		c.done = &Chan{id: w.nchan, zero: Struct{}}
	}
	c.done.closed = true
	if vc != nil {
		c.vc = vc.cp()
		c.done.closeVC = c.vc
	}
	if c.timer != nil {
		c.timer.active = false
	}
	for _, af := range c.afters {
		if vc != nil {
			af.vc.join(vc)
		}
		w.runAfterFunc(af)
	}
	c.afters = nil
	for _, ch := range c.children {
		w.cancelCtx(ch, err, cause, vc)
	}
}

type afterFunc struct {
	fn               Value
	stopped, started bool
	lib              bool
	where            string
	vc               VC
}

func (w *World) runAfterFunc(af *afterFunc) {
	if af.stopped || af.started {
		return
	}
	af.started = true
	fn := af.fn
	ng := w.spawn(nil, af.lib, "afterfunc:"+af.where, func(in *Interp) { in.callValue(fn, nil) })
	ng.vc = af.vc.cp()
	ng.vc[ng.id] = 1
}

func (in *Interp) newCtx(parentV Value, kind string) *Ctx {
	w := in.w
	pi, _ := parentV.(Iface)
	if pi.t == nil {
		panic(goPanic{"cannot create context from nil parent"})
	}
	parent, ok := pi.v.(*Ctx)
	if !ok {
		unsupported("context derived from a user-defined context type %s", pi.t)
	}
	w.nobj++
	c := &Ctx{id: w.nobj, kind: kind, parent: parent, lib: in.inLib()}
	parent.children = append(parent.children, c)
	if parent.err != nil {
		w.cancelCtx(c, parent.err, parent.cause, parent.vc)
	}
	return c
}

func (in *Interp) callCancel(f cancelFn, args []Value) Value {
	w := in.w
	in.maybeYield("cancel")
	var cause Value
	if f.cause && len(args) > 0 {
		if ci, ok := args[0].(Iface); ok && ci.t != nil {
			cause = ci
		}
	}
	w.cancelCtx(f.c, w.errCanceled, cause, in.g.vc)
	in.g.vc[in.g.id]++
	return nil
}

func (c *Ctx) lookupDeadline() *BV {
	for x := c; x != nil; x = x.parent {
		if x.deadline != nil {
			return x.deadline
		}
	}
	return nil
}

func (in *Interp) ctxMethod(c *Ctx, name string, args []Value) Value {
	w := in.w
	switch name {
	case "Err":
		in.maybeYield("ctx.Err")
		if c.err == nil {
			return Iface{}
		}
		if c.vc != nil {
			in.g.vc.join(c.vc)
		}
		return c.err
	case "Done":
		if c.kind == "background" || c.kind == "todo" {
			return (*Chan)(nil)
		}
		// value contexts share their parent's Done
		x := c
		for x.kind == "value" && x.parent != nil {
			x = x.parent
		}
		if x.kind == "background" || x.kind == "todo" {
			return (*Chan)(nil)
		}
		if x.done == nil {
			w.nchan++
			x.done = &Chan{id: w.nchan, zero: Struct{}}
		}
		return x.done
	case "Value":
		for x := c; x != nil; x = x.parent {
			if x.kind == "value" {
				e := w.equal(x.key, args[0])
				if !e.conc() {
					unsupported("symbolic context key comparison")
				}
				if e.v {
					return x.val
				}
			}
		}
		return Iface{}
	case "Deadline":
		if d := c.lookupDeadline(); d != nil {
			return Tuple{Struct{cbv(64, 0), *d, Ptr{}}, cbool(true)}
		}
		return Tuple{Struct{cbv(64, 0), cbv(64, 0), Ptr{}}, cbool(false)}
	}
	unsupported("context method %s", name)
	return nil
}

// value contexts inherit cancellation state from the nearest cancellable ancestor
func (c *Ctx) effective() *Ctx { return c }

// ---------------- native invoke on engine objects ----------------

var reflectKinds = map[string]uint64{"Bool": 1, "Int": 2, "Int8": 3, "Int16": 4, "Int32": 5, "Int64": 6, "Uint": 7,
	"Uint8": 8, "Uint16": 9, "Uint32": 10, "Uint64": 11, "Uintptr": 12, "Float32": 13, "Float64": 14, "Array": 17, "Chan": 18,
	"Func": 19, "Interface": 20, "Map": 21, "Pointer": 22, "Slice": 23, "String": 24, "Struct": 25}

func kindOf(t types.Type) uint64 {
	switch u := t.Underlying().(type) {
	case *types.Basic:
		switch u.Kind() {
		case types.Bool:
			return 1
		case types.Int:
			return 2
		case types.Int8:
			return 3
		case types.Int16:
			return 4
		case types.Int32:
			return 5
		case types.Int64:
			return 6
		case types.Uint:
			return 7
		case types.Uint8:
			return 8
		case types.Uint16:
			return 9
		case types.Uint32:
			return 10
		case types.Uint64:
			return 11
		case types.Float32:
			return 13
		case types.Float64:
			return 14
		case types.String:
			return 24
		}
	case *types.Array:
		return 17
	case *types.Chan:
		return 18
	case *types.Signature:
		return 19
	case *types.Interface:
		return 20
	case *types.Map:
		return 21
	case *types.Pointer:
		return 22
	case *types.Slice:
		return 23
	case *types.Struct:
		return 25
	}
	unsupported("reflect kind of %s", t)
	return 0
}

func (in *Interp) rtypeIface(t types.Type) Value {
	return Iface{t: in.w.env.types["*reflect.rtype"], v: RType{t}}
}

func (in *Interp) nativeInvoke(recv Iface, name string, args []Value) (Value, bool) {
	switch x := recv.v.(type) {
	case *Ctx:
		return in.ctxMethod(x, name, args), true
	case RType:
		switch name {
		case "Kind":
			return cbv(64, kindOf(x.t)), true
		case "Elem":
			switch u := x.t.Underlying().(type) {
			case *types.Pointer:
				return in.rtypeIface(u.Elem()), true
			case *types.Slice:
				return in.rtypeIface(u.Elem()), true
			}
			panic(goPanic{"reflect: Elem of invalid type"})
		case "Implements":
			it := args[0].(Iface).v.(RType).t.Underlying().(*types.Interface)
			return cbool(types.Implements(x.t, it)), true
		case "AssignableTo":
			u := args[0].(Iface).v.(RType).t
			return cbool(types.AssignableTo(x.t, u)), true
		case "Comparable":
			return cbool(types.Comparable(x.t)), true
		case "String", "Name":
			return Str(x.t.String()), true
		}
		unsupported("reflect.Type.%s", name)
	}
	return nil, false
}

// ---------------- errors ----------------

func (in *Interp) lookupMethod(t types.Type, name string) *ssa.Function {
	ms := in.w.env.prog.MethodSets.MethodSet(t)
	for i := 0; i < ms.Len(); i++ {
		if ms.At(i).Obj().Name() == name {
			return in.w.env.prog.MethodValue(ms.At(i))
		}
	}
	return nil
}

func (in *Interp) errorsIs(err, target Value, depth int) bool {
	w := in.w
	if depth > 16 {
		unsupported("errors.Is chain too deep")
	}
	e, _ := err.(Iface)
	if e.t == nil {
		return isNilV(target)
	}
	tg, _ := target.(Iface)
	for {
		if tg.t != nil && types.Comparable(e.t) && types.Identical(e.t, tg.t) {
			eq := w.equal(e, tg)
			if w.decide(eq) {
				return true
			}
		}
		if m := in.lookupMethod(e.t, "Is"); m != nil && m.Signature.Params().Len() == 1 && m.Signature.Results().Len() == 1 {
			r := in.call(m, []Value{e.v, target}, nil).(Bool)
			if w.decide(r) {
				return true
			}
		}
		m := in.lookupMethod(e.t, "Unwrap")
		if m == nil || m.Signature.Results().Len() != 1 {
			return false
		}
		r := in.call(m, []Value{e.v}, nil)
		switch x := r.(type) {
		case Iface:
			if x.t == nil {
				return false
			}
			e = x
		case Slice:
			for i := 0; i < x.len; i++ {
				if in.errorsIs(x.arr.v.(Array)[x.off+i], target, depth+1) {
					return true
				}
			}
			return false
		default:
			return false
		}
	}
}

func (in *Interp) errorsAs(err, target Value, depth int) bool {
	e, _ := err.(Iface)
	if e.t == nil {
		return false
	}
	ti := target.(Iface)
	if ti.t == nil {
		panic(goPanic{"errors: target cannot be nil"})
	}
	pt, ok := ti.t.Underlying().(*types.Pointer)
	if !ok {
		panic(goPanic{"errors: target must be a non-nil pointer"})
	}
	want := pt.Elem()
	for depth < 16 {
		if types.AssignableTo(e.t, want) {
			var v Value = e.v
			if _, isI := want.Underlying().(*types.Interface); isI {
				v = e
			}
			in.store(ti.v.(Ptr), v)
			return true
		}
		m := in.lookupMethod(e.t, "Unwrap")
		if m == nil || m.Signature.Results().Len() != 1 {
			return false
		}
		r := in.call(m, []Value{e.v}, nil)
		switch x := r.(type) {
		case Iface:
			if x.t == nil {
				return false
			}
			e = x
		case Slice:
			for i := 0; i < x.len; i++ {
				if in.errorsAs(x.arr.v.(Array)[x.off+i], target, depth+1) {
					return true
				}
			}
			return false
		default:
			return false
		}
		depth++
	}
	return false
}

func (in *Interp) newErrorString(msg string) Value {
	w := in.w
	return Iface{t: types.NewPointer(w.env.types["errors.errorString"]), v: Ptr{obj: w.newObj(Struct{Str(msg)}, "errorString")}}
}

// ---------------- sync / atomic helpers ----------------

func atomicCell(recvT types.Type, p Ptr) Ptr {
	st := recvT.Underlying().(*types.Pointer).Elem().Underlying().(*types.Struct)
	for i := 0; i < st.NumFields(); i++ {
		if st.Field(i).Name() == "v" {
			return p.field(i)
		}
	}
	panic(engineErr{"atomic type without v field: " + recvT.String()})
}

// ---------------- the intrinsic table ----------------

func (in *Interp) timeVal(ns BV) Value { return Struct{cbv(64, 0), ns, Ptr{}} }
func timeNs(v Value) BV              { return v.(Struct)[1].(BV) }

func (in *Interp) newTimer(d BV, fn Value, ch *Chan, ctx *Ctx) *TimerM {
	w := in.w
	tm := &TimerM{id: len(w.timers), deadline: w.tf.bvBin("add", w.now, d, true), active: true, fn: fn, ch: ch, ctx: ctx,
		lib: in.inLib(), where: in.where()}
	tm.vc = in.g.vc.cp()
	in.g.vc[in.g.id]++
	w.timers = append(w.timers, tm)
	return tm
}

func (in *Interp) intrinsic(fn *ssa.Function, args []Value) (Value, bool) {
	w := in.w
	tf := &w.tf
	name := fnName(fn)
	pkg := ""
	if p := fnPkg(fn); p != nil {
		pkg = p.Pkg.Path()
	}
	if strings.HasSuffix(pkg, "/internal/zzvrt") {
		return in.zzvrt(fn, args)
	}
	switch pkg {
	case "sync":
		switch name {
		case "(*sync.Mutex).Lock":
			p := args[0].(Ptr)
			st := p.field(0)
			in.maybeYield("Lock")
			for rawLoad(st).(BV).v != 0 {
				if int(rawLoad(st).(BV).v) == in.g.id+1 && in.onlyLive() {
					panic(goPanic{"deadlock: mutex locked twice by the only goroutine"})
				}
				w.block(in.g, "mutex", func() bool { return rawLoad(st).(BV).v == 0 })
			}
			rawStore(st, cbv(32, uint64(in.g.id+1)))
			w.acquire(in.g, hbKey(st))
			return nil, true
		case "(*sync.Mutex).TryLock":
			p := args[0].(Ptr)
			st := p.field(0)
			in.maybeYield("TryLock")
			if rawLoad(st).(BV).v != 0 {
				return cbool(false), true
			}
			rawStore(st, cbv(32, uint64(in.g.id+1)))
			w.acquire(in.g, hbKey(st))
			return cbool(true), true
		case "(*sync.WaitGroup).Add", "(*sync.WaitGroup).Done":
			p := args[0].(Ptr)
			k := "wg:" + hbKey(p)
			d := int64(-1)
			if name == "(*sync.WaitGroup).Add" {
				d = w.concretize(args[1].(BV), true, "WaitGroup.Add")
			}
			in.maybeYield("WaitGroup." + fn.Name())
			w.ctrs[k] += d
			if w.ctrs[k] < 0 {
				panic(goPanic{"sync: negative WaitGroup counter"})
			}
			w.release(in.g, k)
			return nil, true
		case "(*sync.WaitGroup).Wait":
			p := args[0].(Ptr)
			k := "wg:" + hbKey(p)
			in.maybeYield("WaitGroup.Wait")
			for w.ctrs[k] != 0 {
				w.block(in.g, "WaitGroup.Wait", func() bool { return w.ctrs[k] == 0 })
			}
			w.acquire(in.g, k)
			return nil, true
		case "(*sync.Mutex).Unlock":
			p := args[0].(Ptr)
			st := p.field(0)
			if rawLoad(st).(BV).v == 0 {
				panic(goPanic{"sync: unlock of unlocked mutex"})
			}
			rawStore(st, cbv(32, 0))
			w.release(in.g, hbKey(st))
			return nil, true
		}
		unsupported("sync function %s", name)
	case "sync/atomic":
		if fn.Signature.Recv() == nil {
			unsupported("atomic function %s", name)
		}
		recvT := fn.Signature.Recv().Type()
		typ := recvT.String()
		meth := fn.Name()
		if k := strings.Index(meth, "["); k >= 0 {
			meth = meth[:k]
		}
		cell := atomicCell(recvT, args[0].(Ptr))
		in.maybeYield("atomic." + meth)
		w.acquire(in.g, hbKey(cell))
		w.release(in.g, hbKey(cell))
		isPtr := strings.Contains(typ, "atomic.Pointer")
		isBool := strings.HasSuffix(typ, "atomic.Bool")
		cur := rawLoad(cell)
		switch meth {
		case "Load":
			if isPtr {
				if cur == nil {
					return Ptr{}, true
				}
				return cur, true
			}
			if isBool {
				return tf.bvCmp("ne", cur.(BV), cbv(32, 0), false), true
			}
			return cur, true
		case "Store":
			if isBool {
				rawStore(cell, tf.iteBV(args[1].(Bool), cbv(32, 1), cbv(32, 0)))
			} else {
				rawStore(cell, args[1])
			}
			return nil, true
		case "Swap":
			if isBool {
				rawStore(cell, tf.iteBV(args[1].(Bool), cbv(32, 1), cbv(32, 0)))
				return tf.bvCmp("ne", cur.(BV), cbv(32, 0), false), true
			}
			rawStore(cell, args[1])
			if isPtr && cur == nil {
				return Ptr{}, true
			}
			return cur, true
		case "CompareAndSwap":
			var eq Bool
			if isPtr {
				if cur == nil {
					cur = Ptr{}
				}
				eq = w.equal(cur, args[1])
			} else if isBool {
				eq = tf.boolEq(tf.bvCmp("ne", cur.(BV), cbv(32, 0), false), args[1].(Bool))
			} else {
				eq = tf.bvCmp("eq", cur.(BV), args[1].(BV), false)
			}
			if w.decide(eq) {
				if isBool {
					rawStore(cell, tf.iteBV(args[2].(Bool), cbv(32, 1), cbv(32, 0)))
				} else {
					rawStore(cell, args[2])
				}
				return cbool(true), true
			}
			return cbool(false), true
		case "Add":
			nv := tf.bvBin("add", cur.(BV), args[1].(BV), false)
			rawStore(cell, nv)
			return nv, true
		}
		unsupported("atomic method %s", name)
	case "time":
		switch name {
		case "time.Now":
			return in.timeVal(w.now), true
		case "time.Since":
			return tf.bvBin("sub", w.now, timeNs(args[0]), true), true
		case "time.Until":
			return tf.bvBin("sub", timeNs(args[0]), w.now, true), true
		case "(time.Time).Sub":
			return tf.bvBin("sub", timeNs(args[0]), timeNs(args[1]), true), true
		case "(time.Time).Add":
			return in.timeVal(tf.bvBin("add", timeNs(args[0]), args[1].(BV), true)), true
		case "(time.Time).UnixNano":
			return timeNs(args[0]), true
		case "(time.Time).IsZero":
			return tf.bvCmp("eq", timeNs(args[0]), cbv(64, 0), true), true
		case "(time.Time).Before":
			return tf.bvCmp("lt", timeNs(args[0]), timeNs(args[1]), true), true
		case "(time.Time).After":
			return tf.bvCmp("gt", timeNs(args[0]), timeNs(args[1]), true), true
		case "(time.Time).Equal":
			return tf.bvCmp("eq", timeNs(args[0]), timeNs(args[1]), true), true
		case "time.Unix":
			return in.timeVal(tf.bvBin("add", tf.bvBin("mul", args[0].(BV), cbv(64, 1000000000), true), args[1].(BV), true)), true
		case "time.Sleep":
			in.vsleep(args[0].(BV))
			return nil, true
		case "time.AfterFunc":
			tm := in.newTimer(args[0].(BV), args[1], nil, nil)
			return Ptr{obj: w.newObj(Struct{(*Chan)(nil), tm}, "timer")}, true
		case "time.NewTimer", "time.After":
			w.nchan++
			ch := &Chan{id: w.nchan, cap: 1, zero: in.timeVal(cbv(64, 0))}
			tm := in.newTimer(args[0].(BV), nil, ch, nil)
			if name == "time.After" {
				return ch, true
			}
			return Ptr{obj: w.newObj(Struct{ch, tm}, "timer")}, true
		case "(*time.Timer).Stop":
			tm := rawLoad(args[0].(Ptr).field(1)).(*TimerM)
			in.maybeYield("Timer.Stop")
			was := tm.active
			tm.active = false
			if !was {
				in.g.vc.join(tm.vc)
			}
			return cbool(was), true
		case "(*time.Timer).Reset":
			tm := rawLoad(args[0].(Ptr).field(1)).(*TimerM)
			in.maybeYield("Timer.Reset")
			was := tm.active
			tm.active = true
			tm.deadline = tf.bvBin("add", w.now, args[1].(BV), true)
			return cbool(was), true
		}
		if recv := fn.Signature.Recv(); recv != nil && strings.HasSuffix(recv.Type().String(), "time.Duration") {
			return nil, false // interpreted from SSA
		}
		unsupported("time function %s", name)
	case "context":
		switch name {
		case "context.Background":
			return w.ctxIface(w.bgCtx), true
		case "context.TODO":
			return w.ctxIface(w.todoCtx), true
		case "context.WithCancel":
			c := in.newCtx(args[0], "cancel")
			return Tuple{w.ctxIface(c), cancelFn{c: c}}, true
		case "context.WithCancelCause":
			c := in.newCtx(args[0], "cancel")
			return Tuple{w.ctxIface(c), cancelFn{c: c, cause: true}}, true
		case "context.WithValue":
			c := in.newCtx(args[0], "value")
			c.key, c.val = args[1], args[2]
			return w.ctxIface(c), true
		case "context.WithDeadline", "context.WithTimeout":
			c := in.newCtx(args[0], "deadline")
			var dl BV
			if name == "context.WithTimeout" {
				dl = tf.bvBin("add", w.now, args[1].(BV), true)
			} else {
				dl = timeNs(args[1])
			}
			if pd := c.parent.lookupDeadline(); pd != nil {
				if w.decide(tf.bvCmp("le", *pd, dl, true)) {
					// parent's deadline is earlier: behaves as a plain cancellable child
					c.kind = "cancel"
					return Tuple{w.ctxIface(c), cancelFn{c: c}}, true
				}
			}
			c.deadline = &dl
			if c.err == nil {
				tm := in.newTimer(cbv(64, 0), nil, nil, c)
				tm.deadline = dl
				c.timer = tm
			}
			return Tuple{w.ctxIface(c), cancelFn{c: c}}, true
		case "context.AfterFunc":
			ci := args[0].(Iface)
			c, ok := ci.v.(*Ctx)
			if !ok {
				unsupported("context.AfterFunc on user context")
			}
			// find the nearest context that can actually be cancelled
			x := c
			for x.kind == "value" && x.parent != nil {
				x = x.parent
			}
			af := &afterFunc{fn: args[1], lib: in.inLib(), where: in.where(), vc: in.g.vc.cp()}
			in.g.vc[in.g.id]++
			if x.err != nil {
				w.runAfterFunc(af)
			} else {
				x.afters = append(x.afters, af)
			}
			return nativeFn{name: "stop", f: func(in2 *Interp, _ []Value) Value {
				in2.maybeYield("AfterFunc.stop")
				was := !af.started && !af.stopped
				af.stopped = true
				return cbool(was)
			}}, true
		case "context.Cause":
			ci := args[0].(Iface)
			c, ok := ci.v.(*Ctx)
			if !ok {
				unsupported("context.Cause on user context")
			}
			for x := c; x != nil; x = x.parent {
				if x.err != nil {
					if x.cause != nil {
						return x.cause, true
					}
					return x.err, true
				}
			}
			return Iface{}, true
		}
		if recv := fn.Signature.Recv(); recv != nil && strings.Contains(recv.Type().String(), "deadlineExceededError") {
			return nil, false
		}
		unsupported("context function %s", name)
	case "errors":
		switch name {
		case "errors.Is":
			return cbool(in.errorsIs(args[0], args[1], 0)), true
		case "errors.As":
			return cbool(in.errorsAs(args[0], args[1], 0)), true
		}
		return nil, false
	case "fmt":
		switch name {
		case "fmt.Errorf":
			format := string(args[0].(Str))
			va := args[1].(Slice)
			if strings.Count(format, "%w") == 1 {
				for i := 0; i < va.len; i++ {
					if ei, ok := va.arr.v.(Array)[va.off+i].(Iface); ok && ei.t != nil && types.Implements(ei.t, w.env.types["error"].Underlying().(*types.Interface)) {
						o := w.newObj(Struct{Str("<" + format + ">"), ei}, "wrapError")
						return Iface{t: types.NewPointer(w.env.types["fmt.wrapError"]), v: Ptr{obj: o}}, true
					}
				}
			}
			return in.newErrorString("<" + format + ">"), true
		case "fmt.Sprintf":
			return Str("<" + string(args[0].(Str)) + ">"), true
		case "fmt.Sprint", "fmt.Sprintln":
			return Str("<sprint>"), true
		case "fmt.Println", "fmt.Printf", "fmt.Print":
			return Tuple{cbv(64, 0), Iface{}}, true
		}
		if recv := fn.Signature.Recv(); recv != nil && strings.Contains(recv.Type().String(), "wrapError") {
			return nil, false
		}
		unsupported("fmt function %s", name)
	case "reflect":
		switch name {
		case "reflect.TypeOf":
			a := args[0].(Iface)
			if a.t == nil {
				return Iface{}, true
			}
			return in.rtypeIface(a.t), true
		case "reflect.PointerTo", "reflect.PtrTo":
			return in.rtypeIface(types.NewPointer(args[0].(Iface).v.(RType).t)), true
		case "reflect.DeepEqual":
			return w.deepEqual(args[0], args[1], 0), true
		}
		unsupported("reflect function %s", name)
	case "math":
		switch name {
		case "math.Round":
			return tf.fpRound(args[0].(FP)), true
		case "math.Floor":
			return tf.fpFloor(args[0].(FP)), true
		case "math.Abs":
			x := args[0].(FP)
			return tf.iteFP(tf.fpCmp("lt", x, cfp(64, 0)), tf.fpNeg(x), x), true
		}
		unsupported("math function %s", name)
	case "regexp":
		switch name {
		case "regexp.MustCompile":
			return Ptr{obj: w.newObj(Struct{args[0]}, "regexp")}, true
		}
		unsupported("regexp function %s (error-message matching is outside the encoded part)", name)
	case "strconv":
		if name == "strconv.Atoi" {
			s, ok := args[0].(Str)
			if !ok {
				unsupported("strconv.Atoi on a non-concrete string")
			}
			v, err := strconv.Atoi(string(s))
			if err != nil {
				return Tuple{cbv(64, 0), in.newErrorString("strconv.Atoi: " + err.Error())}, true
			}
			return Tuple{cbv(64, uint64(int64(v))), Iface{}}, true
		}
		return nil, false
	case "math/rand":
		switch name {
		case "math/rand.Float64":
			w.randN++
			f := FP{bits: 64, t: w.fresh(fmt.Sprintf("rand.Float64#%d", w.randN), sortFP(64))}
			w.addPC(tf.fpCmp("ge", f, cfp(64, 0)))
			w.addPC(tf.fpCmp("lt", f, cfp(64, 1)))
			w.nondets = append(w.nondets, nondetRec{f.t.user, f})
			return f, true
		case "math/rand.Float32":
			w.randN++
			f := FP{bits: 32, t: w.fresh(fmt.Sprintf("rand.Float32#%d", w.randN), sortFP(32))}
			w.addPC(tf.fpCmp("ge", f, cfp(32, 0)))
			w.addPC(tf.fpCmp("lt", f, cfp(32, 1)))
			w.nondets = append(w.nondets, nondetRec{f.t.user, f})
			return f, true
		}
		unsupported("math/rand function %s", name)
	}
	return nil, false
}

func (in *Interp) onlyLive() bool {
	for _, g := range in.w.gs {
		if g != in.g && !g.done {
			return false
		}
	}
	for _, t := range in.w.timers {
		if t.active {
			return false
		}
	}
	return true
}

func (in *Interp) vsleep(d BV) {
	w := in.w
	wk := w.tf.bvBin("add", w.now, d, true)
	// d <= 0 returns immediately
	if !w.decide(w.tf.bvCmp("gt", d, cbv(64, 0), true)) {
		in.maybeYield("sleep0")
		return
	}
	in.g.wake = &wk
	w.yield(in.g, "sleep")
}

// ---------------- harness intrinsics (package zzvrt) ----------------

func (in *Interp) zzvrt(fn *ssa.Function, args []Value) (Value, bool) {
	w := in.w
	tf := &w.tf
	nondetBV := func(width int) Value {
		b := BV{w: width, t: w.fresh(string(args[0].(Str)), sortBV(width))}
		w.nondets = append(w.nondets, nondetRec{string(args[0].(Str)), b})
		return b
	}
	switch fn.Name() {
	case "Int64", "Int", "Uint", "Uint64", "Duration":
		return nondetBV(64), true
	case "Int32", "Uint32":
		return nondetBV(32), true
	case "Byte":
		return nondetBV(8), true
	case "Bool":
		b := Bool{t: w.fresh(string(args[0].(Str)), sortBool)}
		w.nondets = append(w.nondets, nondetRec{string(args[0].(Str)), b})
		return b, true
	case "Float64":
		f := FP{bits: 64, t: w.fresh(string(args[0].(Str)), sortFP(64))}
		w.nondets = append(w.nondets, nondetRec{string(args[0].(Str)), f})
		return f, true
	case "Float32":
		f := FP{bits: 32, t: w.fresh(string(args[0].(Str)), sortFP(32))}
		w.nondets = append(w.nondets, nondetRec{string(args[0].(Str)), f})
		return f, true
	case "Choose":
		n := int(args[1].(BV).v)
		if n <= 0 {
			panic(pathEnd{"choose-empty"})
		}
		k := 0
		if n > 1 {
			k = w.choose(trues(n), "choose:"+string(args[0].(Str)))
		}
		v := cbv(64, uint64(k))
		w.nondets = append(w.nondets, nondetRec{string(args[0].(Str)), v})
		return v, true
	case "Assume":
		w.assume(args[0].(Bool))
		return nil, true
	case "Assert":
		w.assert(args[0].(Bool), string(args[1].(Str)), in.where())
		return nil, true
	case "Fail":
		w.assert(cbool(false), string(args[0].(Str)), in.where())
		return nil, true
	case "Reach":
		if w.past() {
			w.reaches[string(args[0].(Str))]++
		}
		return nil, true
	case "Cut":
		w.cut = string(args[0].(Str))
		panic(pathEnd{"cut:" + w.cut})
	case "Observe":
		v := args[1]
		if i, ok := v.(Iface); ok {
			v = i.v
		}
		w.observes = append(w.observes, observeRec{string(args[0].(Str)), v})
		return nil, true
	case "Sleep":
		in.vsleep(args[0].(BV))
		return nil, true
	case "Now":
		return w.now, true
	case "Yield":
		in.maybeYield("yield")
		return nil, true
	case "Quiesce":
		me := in.g
		quiet := func() bool {
			for _, g := range w.gs {
				if g == me || g.done {
					continue
				}
				if g.wake != nil || g.ready == nil || g.ready() {
					return false
				}
			}
			for _, t := range w.timers {
				if t.active {
					return false
				}
			}
			return true
		}
		if !quiet() {
			w.block(me, "quiesce", quiet)
		}
		for _, g := range w.gs {
			if g != me && g.done {
				me.vc.join(g.vc)
			}
		}
		return nil, true
	case "Live":
		n := 0
		for _, g := range w.gs {
			if g != in.g && !g.done && g.lib {
				n++
			}
		}
		return cbv(64, uint64(n)), true
	case "LiveAll":
		n := 0
		for _, g := range w.gs {
			if g != in.g && !g.done {
				n++
			}
		}
		return cbv(64, uint64(n)), true
	case "PendingCallbacks":
		n := 0
		var visit func(c *Ctx)
		seen := map[*Ctx]bool{}
		visit = func(c *Ctx) {
			if c == nil || seen[c] {
				return
			}
			seen[c] = true
			for _, af := range c.afters {
				if af.lib && !af.stopped && !af.started {
					n++
				}
			}
			for _, ch := range c.children {
				visit(ch)
			}
		}
		visit(w.bgCtx)
		visit(w.todoCtx)
		return cbv(64, uint64(n)), true
	case "ArmedTimers":
		n := 0
		for _, t := range w.timers {
			if t.active && t.lib {
				n++
			}
		}
		return cbv(64, uint64(n)), true
	case "CtrAdd":
		k := string(args[0].(Str))
		w.ctrs[k] += sext(args[1].(BV).v, 64)
		return cbv(64, uint64(w.ctrs[k])), true
	case "CtrGet":
		return cbv(64, uint64(w.ctrs[string(args[0].(Str))])), true
	case "CtrSet":
		w.ctrs[string(args[0].(Str))] = sext(args[1].(BV).v, 64)
		return nil, true
	case "CellSet":
		w.cells[string(args[0].(Str))] = args[1]
		return nil, true
	case "CellGet":
		if v, ok := w.cells[string(args[0].(Str))]; ok {
			return v, true
		}
		return cbv(64, 0), true
	case "Trace":
		w.tracef("harness: %s", string(args[0].(Str)))
		return nil, true
	case "Param":
		if v, ok := w.env.opts.params[string(args[0].(Str))]; ok {
			return cbv(64, uint64(v)), true
		}
		return args[1], true
	case "Symbolic":
		return cbool(true), true
	case "init":
		return nil, true
	}
	_ = tf
	unsupported("unknown zzvrt intrinsic %s", fn.Name())
	return nil, false
}

// Layer 2: interpreted goroutines (host goroutines used as coroutines), virtual time,
// timers, bounded-preemption scheduler (DESIGN §4).
package main

import (
	"fmt"
)

type Chan struct {
	id      int
	cap     int
	buf     []Value
	vcsq    []VC
	closed  bool
	closeVC VC
	zero    Value
	// rendezvous for unbuffered channels: a pending sender offers a value
	offers []*offer
}
type offer struct {
	g     *G
	v     Value
	taken bool
	vc    VC
}

type Ctx struct {
	id       int
	kind     string // background, todo, cancel, value, deadline
	parent   *Ctx
	done     *Chan
	err      Value // Iface or nil
	cause    Value
	children []*Ctx
	key, val Value
	deadline *BV
	timer    *TimerM
	vc       VC
	lib      bool
	afters   []*afterFunc
}

type TimerM struct {
	id       int
	deadline BV
	active   bool
	fn       Value // Closure for AfterFunc
	ch       *Chan
	ctx      *Ctx // deadline context to cancel
	vc       VC
	lib      bool
	where    string
}

type G struct {
	id     int
	resume chan struct{}
	done   bool
	ready  func() bool // nil = runnable
	wake   *BV         // sleeping until
	why    string
	vc     VC
	in     *Interp
	lib    bool // started by library code (vs. harness)
	where  string
}

// yield is called by the running goroutine at a visible operation.
func (w *World) yield(g *G, why string) {
	g.why = why
	w.yielded <- g
	select {
	case <-g.resume:
	case <-w.abort:
		panic(abortG{})
	}
}
func (w *World) block(g *G, why string, ready func() bool) {
	g.ready = ready
	w.yield(g, "blocked:"+why)
}

func (w *World) spawn(parent *G, lib bool, where string, body func(in *Interp)) *G {
	g := &G{id: len(w.gs), resume: make(chan struct{}), vc: VC{}, lib: lib, where: where}
	if len(w.gs) >= w.env.opts.maxGo {
		unsupported("more than %d goroutines", w.env.opts.maxGo)
	}
	if parent != nil {
		g.vc = parent.vc.cp()
		parent.vc[parent.id]++
	}
	g.vc[g.id] = 1
	g.in = &Interp{w: w, g: g}
	w.gs = append(w.gs, g)
	if len(w.gs) > 1 && w.env.opts.race {
		w.hbOn = true
	}
	go func() {
		defer func() {
			if r := recover(); r != nil {
				switch r := r.(type) {
				case abortG:
					return
				case pathEnd:
					w.end = r.why
				case goPanic:
					w.end = "panic: " + r.msg
					w.panicWhere = g.in.where()
				case engineErr:
					w.end = "ENGINE: " + r.msg + " @ " + g.in.where()
				default:
					w.end = fmt.Sprintf("ENGINE-PANIC: %v @ %s", r, g.in.where())
				}
				g.done = true
				select {
				case w.yielded <- nil:
				case <-w.abort:
				}
				return
			}
			g.done = true
			select {
			case w.yielded <- g:
			case <-w.abort:
			}
		}()
		select {
		case <-g.resume:
		case <-w.abort:
			panic(abortG{})
		}
		body(g.in)
	}()
	return g
}

// isDue decides (forking if necessary) whether deadline d has been reached at the current instant.
func (w *World) isDue(d BV) bool {
	c := w.tf.bvCmp("le", d, w.now, true)
	if c.t == nil {
		return c.v
	}
	key := [2]int{0, 0}
	if d.t != nil {
		key[0] = d.t.id
	} else {
		key[0] = -int(d.v) - 1
	}
	if w.now.t != nil {
		key[1] = w.now.t.id
	} else {
		key[1] = -int(w.now.v) - 1
	}
	if v, ok := w.dueMemo[key]; ok {
		return v
	}
	v := w.choose([]Bool{w.tf.not(c), c}, "due") == 1
	w.dueMemo[key] = v
	return v
}

func (w *World) fireTimer(t *TimerM) {
	t.active = false
	w.tracef("fire timer%d (%s) at now=%s", t.id, t.where, describe(w.now))
	switch {
	case t.fn != nil:
		cl := t.fn
		ng := w.spawn(nil, t.lib, "timer:"+t.where, func(in *Interp) { in.callValue(cl, nil) })
		ng.vc = t.vc.cp()
		ng.vc[ng.id] = 1
	case t.ctx != nil:
		w.cancelCtx(t.ctx, w.errDeadline, nil, t.vc)
	case t.ch != nil:
		if len(t.ch.buf) < t.ch.cap {
			t.ch.buf = append(t.ch.buf, Struct{cbv(64, 0), w.now, Ptr{}})
			t.ch.vcsq = append(t.ch.vcsq, t.vc.cp())
		}
	}
}

type schedEvent struct {
	d  BV
	g  *G
	tm *TimerM
}

func (w *World) pendingEvents() []schedEvent {
	var evs []schedEvent
	for _, g := range w.gs {
		if !g.done && g.wake != nil {
			evs = append(evs, schedEvent{d: *g.wake, g: g})
		}
	}
	for _, t := range w.timers {
		if t.active {
			evs = append(evs, schedEvent{d: t.deadline, tm: t})
		}
	}
	return evs
}

// advanceTime moves the clock to the earliest pending event (solver decides which) and fires it.
// Returns false when there is no pending event.
func (w *World) advanceTime() bool {
	evs := w.pendingEvents()
	if len(evs) == 0 {
		return false
	}
	cons := make([]Bool, len(evs))
	for i := range evs {
		c := w.tf.bvCmp("ge", evs[i].d, w.now, true)
		for j := range evs {
			if i != j {
				c = w.tf.and(c, w.tf.bvCmp("le", evs[i].d, evs[j].d, true))
			}
		}
		cons[i] = c
	}
	k := 0
	if len(evs) > 1 {
		k = w.choose(cons, "next-event")
	} else {
		w.addPC(cons[0])
	}
	e := evs[k]
	w.now = e.d
	if e.g != nil {
		e.g.wake = nil
		w.tracef("wake g%d at now=%s", e.g.id, describe(w.now))
	} else {
		w.fireTimer(e.tm)
	}
	return true
}

// run drives the schedule until the main goroutine is done and everything quiesces.
func (w *World) run() {
	cur := w.gs[0]
	for {
		cur.resume <- struct{}{}
		y := <-w.yielded
		if y == nil { // path ended abnormally
			return
		}
		for {
			// fire due timers eagerly, wake due sleepers
			for _, t := range w.timers {
				if t.active && w.isDue(t.deadline) {
					w.fireTimer(t)
				}
			}
			var runnable []*G
			for _, g := range w.gs {
				if g.done {
					continue
				}
				if g.wake != nil {
					if w.isDue(*g.wake) {
						g.wake = nil
					} else {
						continue
					}
				}
				if g.ready != nil {
					if g.ready() {
						g.ready = nil
					} else {
						continue
					}
				}
				runnable = append(runnable, g)
			}
			if len(runnable) == 0 {
				if w.advanceTime() {
					continue
				}
				alive := 0
				for _, g := range w.gs {
					if !g.done {
						alive++
					}
				}
				if w.gs[0].done {
					if alive > 0 {
						w.end = fmt.Sprintf("completed-with-blocked-goroutines:%d", alive)
					} else {
						w.end = "completed"
					}
				} else {
					w.end = "DEADLOCK"
				}
				return
			}
			yRunnable := false
			for _, g := range runnable {
				if g == y {
					yRunnable = true
				}
			}
			var opts []*G
			if yRunnable {
				opts = append(opts, y)
				if w.preempt < w.env.opts.maxPre {
					for _, g := range runnable {
						if g != y {
							opts = append(opts, g)
						}
					}
				}
			} else {
				opts = runnable
			}
			nOpts := len(opts)
			delayOpt := false
			if yRunnable && w.delays < w.env.opts.maxDelay && len(w.pendingEvents()) > 0 {
				delayOpt = true
				nOpts++
			}
			k := 0
			if nOpts > 1 {
				k = w.choose(trues(nOpts), "sched")
			}
			if delayOpt && k == nOpts-1 {
				w.delays++
				w.tracef("delay-injection: g%d slow at %s", y.id, y.why)
				w.advanceTime()
				continue
			}
			cur = opts[k]
			if yRunnable && cur != y {
				w.preempt++
				w.tracef("preempt g%d->g%d at %s", y.id, cur.id, y.why)
			} else if cur != y {
				w.tracef("switch g%d->g%d (%s)", y.id, cur.id, y.why)
			}
			break
		}
	}
}

func trues(n int) []Bool {
	r := make([]Bool, n)
	for i := range r {
		r[i] = cbool(true)
	}
	return r
}

// Happens-before data-race detector (vector clocks) for Layer 2.
package main

import (
	"fmt"
)

type VC map[int]int

func (a VC) join(b VC) {
	for k, v := range b {
		if v > a[k] {
			a[k] = v
		}
	}
}
func (a VC) cp() VC {
	c := VC{}
	for k, v := range a {
		c[k] = v
	}
	return c
}

type shadow struct {
	wg, wc int
	wwhere string
	wlib   bool
	reads  map[int]int
	rwhere map[int]string
	rlib   map[int]bool
}

func hbKey(p Ptr) string { return fmt.Sprintf("%d%v", p.obj.id, p.path) }

// hbAccess records a plain memory access by the running goroutine and reports unordered
// conflicting accesses in which at least one side is library code.
func (in *Interp) hbAccess(p Ptr, write bool) {
	w, g := in.w, in.g
	if !w.hbOn || in.quiet > 0 || p.obj == nil || g == nil {
		return
	}
	k := hbKey(p)
	sh := w.shadows[k]
	if sh == nil {
		sh = &shadow{wg: -1, reads: map[int]int{}, rwhere: map[int]string{}, rlib: map[int]bool{}}
		w.shadows[k] = sh
	}
	lib := in.inLib()
	where := in.where()
	report := func(og int, owhere string, olib bool, kind string) {
		if !lib && !olib {
			return // both sides are harness code
		}
		msg := fmt.Sprintf("%s on %s (%s): g%d at [%s] vs g%d at [%s]", kind, p.obj.what, k, g.id, where, og, owhere)
		key := kind + "|" + where + "|" + owhere
		if !w.raceSeen[key] {
			w.raceSeen[key] = true
			w.violation("race", "data race: "+where+" / "+owhere, msg, nil)
		}
	}
	if sh.wg >= 0 && sh.wg != g.id && sh.wc > g.vc[sh.wg] {
		kind := "read-after-write"
		if write {
			kind = "write-write"
		}
		report(sh.wg, sh.wwhere, sh.wlib, kind)
	}
	if write {
		for rg, rc := range sh.reads {
			if rg != g.id && rc > g.vc[rg] {
				report(rg, sh.rwhere[rg], sh.rlib[rg], "write-after-read")
			}
		}
		sh.wg, sh.wc, sh.wwhere, sh.wlib = g.id, g.vc[g.id], where, lib
		sh.reads, sh.rwhere, sh.rlib = map[int]int{}, map[int]string{}, map[int]bool{}
	} else {
		sh.reads[g.id] = g.vc[g.id]
		sh.rwhere[g.id] = where
		sh.rlib[g.id] = lib
	}
}

func (w *World) acquire(g *G, key interface{}) {
	if v, ok := w.vcs[key]; ok {
		g.vc.join(v)
	}
}
func (w *World) release(g *G, key interface{}) {
	v, ok := w.vcs[key]
	if !ok {
		v = VC{}
		w.vcs[key] = v
	}
	v.join(g.vc)
	g.vc[g.id]++
}

// SMT terms and scalar values with eager constant folding.
package main

import (
	"fmt"
	"math"
	"sort"
	"strings"
)

// Term is a named SMT-LIB2 constant: either a declared symbol (def == "") or a
// defined one whose definition mentions only the names of its deps. Naming every
// compound term keeps expressions linear in size (DAG, not tree).
type Term struct {
	id   int
	sort string
	def  string
	deps []*Term
	name string
	user string // for declared symbols: the harness-visible name
}

func sortBV(w int) string { return fmt.Sprintf("(_ BitVec %d)", w) }

const sortBool = "Bool"

func sortFP(bits int) string {
	if bits == 32 {
		return "(_ FloatingPoint 8 24)"
	}
	return "(_ FloatingPoint 11 53)"
}

// ---- scalar values ----

type BV struct {
	w int
	t *Term // nil = concrete
	v uint64
}
type Bool struct {
	t *Term
	v bool
}
type FP struct {
	bits int // 32 or 64
	t    *Term
	f    float64 // concrete value (already rounded to float32 when bits==32)
}

func (b BV) conc() bool   { return b.t == nil }
func (b Bool) conc() bool { return b.t == nil }
func (f FP) conc() bool   { return f.t == nil }

func mask(w int) uint64 {
	if w >= 64 {
		return ^uint64(0)
	}
	return (uint64(1) << uint(w)) - 1
}
func cbv(w int, v uint64) BV { return BV{w: w, v: v & mask(w)} }
func cbool(v bool) Bool      { return Bool{v: v} }
func cfp(bits int, f float64) FP {
	if bits == 32 {
		f = float64(float32(f))
	}
	return FP{bits: bits, f: f}
}
func sext(v uint64, w int) int64 {
	if w >= 64 {
		return int64(v)
	}
	sh := uint(64 - w)
	return int64(v<<sh) >> sh
}

func (b BV) S() string {
	if b.t == nil {
		return fmt.Sprintf("(_ bv%d %d)", b.v&mask(b.w), b.w)
	}
	return b.t.name
}
func (b Bool) S() string {
	if b.t == nil {
		if b.v {
			return "true"
		}
		return "false"
	}
	return b.t.name
}
func (f FP) S() string {
	if f.t != nil {
		return f.t.name
	}
	if f.bits == 32 {
		u := math.Float32bits(float32(f.f))
		return fmt.Sprintf("(fp #b%01b #b%08b #b%023b)", u>>31, (u>>23)&0xff, u&0x7fffff)
	}
	u := math.Float64bits(f.f)
	return fmt.Sprintf("(fp #b%01b #b%011b #b%052b)", u>>63, (u>>52)&0x7ff, u&0xfffffffffffff)
}

func termOf(v interface{}) *Term {
	switch x := v.(type) {
	case BV:
		return x.t
	case Bool:
		return x.t
	case FP:
		return x.t
	}
	return nil
}

// TermFactory allocates terms for one path.
type TermFactory struct {
	n    int
	syms []*Term
}

func (tf *TermFactory) sym(user, sort string) *Term {
	tf.n++
	t := &Term{id: tf.n, sort: sort, name: fmt.Sprintf("s%d", tf.n), user: user}
	tf.syms = append(tf.syms, t)
	return t
}
func (tf *TermFactory) def(sort, def string, deps ...*Term) *Term {
	tf.n++
	var d []*Term
	for _, x := range deps {
		if x != nil {
			d = append(d, x)
		}
	}
	return &Term{id: tf.n, sort: sort, def: def, deps: d, name: fmt.Sprintf("t%d", tf.n)}
}

// emit writes declarations/definitions for the cone of influence of roots, in id order.
func emit(roots []*Term) string {
	seen := map[*Term]bool{}
	var all []*Term
	var visit func(t *Term)
	visit = func(t *Term) {
		if t == nil || seen[t] {
			return
		}
		seen[t] = true
		all = append(all, t)
		for _, d := range t.deps {
			visit(d)
		}
	}
	for _, r := range roots {
		visit(r)
	}
	sort.Slice(all, func(i, j int) bool { return all[i].id < all[j].id })
	var sb strings.Builder
	for _, t := range all {
		if t.def == "" {
			fmt.Fprintf(&sb, "(declare-const %s %s)\n", t.name, t.sort)
		} else {
			fmt.Fprintf(&sb, "(define-fun %s () %s %s)\n", t.name, t.sort, t.def)
		}
	}
	return sb.String()
}

func symsOf(roots []*Term) []*Term {
	seen := map[*Term]bool{}
	var out []*Term
	var visit func(t *Term)
	visit = func(t *Term) {
		if t == nil || seen[t] {
			return
		}
		seen[t] = true
		if t.def == "" {
			out = append(out, t)
		}
		for _, d := range t.deps {
			visit(d)
		}
	}
	for _, r := range roots {
		visit(r)
	}
	sort.Slice(out, func(i, j int) bool { return out[i].id < out[j].id })
	return out
}

// ---- boolean ops ----

func (tf *TermFactory) not(a Bool) Bool {
	if a.t == nil {
		return cbool(!a.v)
	}
	return Bool{t: tf.def(sortBool, "(not "+a.S()+")", a.t)}
}
func (tf *TermFactory) and(a, b Bool) Bool {
	if a.t == nil {
		if a.v {
			return b
		}
		return cbool(false)
	}
	if b.t == nil {
		if b.v {
			return a
		}
		return cbool(false)
	}
	return Bool{t: tf.def(sortBool, "(and "+a.S()+" "+b.S()+")", a.t, b.t)}
}
func (tf *TermFactory) or(a, b Bool) Bool {
	if a.t == nil {
		if a.v {
			return cbool(true)
		}
		return b
	}
	if b.t == nil {
		if b.v {
			return cbool(true)
		}
		return a
	}
	return Bool{t: tf.def(sortBool, "(or "+a.S()+" "+b.S()+")", a.t, b.t)}
}
func (tf *TermFactory) boolEq(a, b Bool) Bool {
	if a.t == nil && b.t == nil {
		return cbool(a.v == b.v)
	}
	return Bool{t: tf.def(sortBool, "(= "+a.S()+" "+b.S()+")", a.t, b.t)}
}
func (tf *TermFactory) iteBV(c Bool, a, b BV) BV {
	if c.t == nil {
		if c.v {
			return a
		}
		return b
	}
	if a.t == nil && b.t == nil && a.v == b.v {
		return a
	}
	return BV{w: a.w, t: tf.def(sortBV(a.w), "(ite "+c.S()+" "+a.S()+" "+b.S()+")", c.t, a.t, b.t)}
}
func (tf *TermFactory) iteBool(c Bool, a, b Bool) Bool {
	if c.t == nil {
		if c.v {
			return a
		}
		return b
	}
	return Bool{t: tf.def(sortBool, "(ite "+c.S()+" "+a.S()+" "+b.S()+")", c.t, a.t, b.t)}
}
func (tf *TermFactory) iteFP(c Bool, a, b FP) FP {
	if c.t == nil {
		if c.v {
			return a
		}
		return b
	}
	return FP{bits: a.bits, t: tf.def(sortFP(a.bits), "(ite "+c.S()+" "+a.S()+" "+b.S()+")", c.t, a.t, b.t)}
}

// ---- bit-vector ops ----

// bvBin computes an arithmetic/bitwise op; signed selects division/shift flavour.
func (tf *TermFactory) bvBin(op string, a, b BV, signed bool) BV {
	w := a.w
	if b.w != w {
		panic(fmt.Sprintf("bvBin width mismatch %d vs %d (%s)", a.w, b.w, op))
	}
	if a.t == nil && b.t == nil {
		av, bv := a.v&mask(w), b.v&mask(w)
		sa, sb := sext(av, w), sext(bv, w)
		switch op {
		case "add":
			return cbv(w, av+bv)
		case "sub":
			return cbv(w, av-bv)
		case "mul":
			return cbv(w, av*bv)
		case "div":
			if bv == 0 {
				panic(goPanic{"integer divide by zero"})
			}
			if signed {
				if sb == -1 {
					return cbv(w, uint64(-sa))
				}
				return cbv(w, uint64(sa/sb))
			}
			return cbv(w, av/bv)
		case "rem":
			if bv == 0 {
				panic(goPanic{"integer divide by zero"})
			}
			if signed {
				if sb == -1 {
					return cbv(w, 0)
				}
				return cbv(w, uint64(sa%sb))
			}
			return cbv(w, av%bv)
		case "and":
			return cbv(w, av&bv)
		case "or":
			return cbv(w, av|bv)
		case "xor":
			return cbv(w, av^bv)
		case "andnot":
			return cbv(w, av&^bv)
		case "shl":
			if bv >= uint64(w) {
				return cbv(w, 0)
			}
			return cbv(w, av<<bv)
		case "shr":
			if signed {
				if bv >= uint64(w) {
					bv = uint64(w - 1)
				}
				return cbv(w, uint64(sa>>bv))
			}
			if bv >= uint64(w) {
				return cbv(w, 0)
			}
			return cbv(w, av>>bv)
		}
		panic("bvBin op " + op)
	}
	// light algebraic simplification
	switch op {
	case "add":
		if a.t == nil && a.v == 0 {
			return b
		}
		if b.t == nil && b.v == 0 {
			return a
		}
	case "sub":
		if b.t == nil && b.v == 0 {
			return a
		}
	case "mul":
		if (a.t == nil && a.v == 1) || (b.t == nil && b.v == 0) {
			return b
		}
		if (b.t == nil && b.v == 1) || (a.t == nil && a.v == 0) {
			return a
		}
	}
	var smt string
	switch op {
	case "add":
		smt = "bvadd"
	case "sub":
		smt = "bvsub"
	case "mul":
		smt = "bvmul"
	case "div":
		smt = "bvudiv"
		if signed {
			smt = "bvsdiv"
		}
	case "rem":
		smt = "bvurem"
		if signed {
			smt = "bvsrem"
		}
	case "and":
		smt = "bvand"
	case "or":
		smt = "bvor"
	case "xor":
		smt = "bvxor"
	case "andnot":
		return BV{w: w, t: tf.def(sortBV(w), "(bvand "+a.S()+" (bvnot "+b.S()+"))", a.t, b.t)}
	case "shl":
		smt = "bvshl"
	case "shr":
		smt = "bvlshr"
		if signed {
			smt = "bvashr"
		}
	default:
		panic("bvBin op " + op)
	}
	return BV{w: w, t: tf.def(sortBV(w), "("+smt+" "+a.S()+" "+b.S()+")", a.t, b.t)}
}

func (tf *TermFactory) bvCmp(op string, a, b BV, signed bool) Bool {
	w := a.w
	if b.w != w {
		panic(fmt.Sprintf("bvCmp width mismatch %d vs %d", a.w, b.w))
	}
	if a.t == nil && b.t == nil {
		av, bv := a.v&mask(w), b.v&mask(w)
		sa, sb := sext(av, w), sext(bv, w)
		switch op {
		case "eq":
			return cbool(av == bv)
		case "ne":
			return cbool(av != bv)
		case "lt":
			if signed {
				return cbool(sa < sb)
			}
			return cbool(av < bv)
		case "le":
			if signed {
				return cbool(sa <= sb)
			}
			return cbool(av <= bv)
		case "gt":
			if signed {
				return cbool(sa > sb)
			}
			return cbool(av > bv)
		case "ge":
			if signed {
				return cbool(sa >= sb)
			}
			return cbool(av >= bv)
		}
	}
	if a.t != nil && a.t == b.t {
		switch op {
		case "eq", "le", "ge":
			return cbool(true)
		case "ne", "lt", "gt":
			return cbool(false)
		}
	}
	var smt string
	switch op {
	case "eq":
		smt = "="
	case "ne":
		return Bool{t: tf.def(sortBool, "(not (= "+a.S()+" "+b.S()+"))", a.t, b.t)}
	case "lt":
		smt = "bvult"
		if signed {
			smt = "bvslt"
		}
	case "le":
		smt = "bvule"
		if signed {
			smt = "bvsle"
		}
	case "gt":
		smt = "bvugt"
		if signed {
			smt = "bvsgt"
		}
	case "ge":
		smt = "bvuge"
		if signed {
			smt = "bvsge"
		}
	default:
		panic("bvCmp " + op)
	}
	return Bool{t: tf.def(sortBool, "("+smt+" "+a.S()+" "+b.S()+")", a.t, b.t)}
}

// bvConv converts a to width w (signed source → sign extension).
func (tf *TermFactory) bvConv(a BV, w int, srcSigned bool) BV {
	if a.w == w {
		return a
	}
	if a.t == nil {
		if w > a.w && srcSigned {
			return cbv(w, uint64(sext(a.v, a.w)))
		}
		return cbv(w, a.v)
	}
	if w > a.w {
		ext := "zero_extend"
		if srcSigned {
			ext = "sign_extend"
		}
		return BV{w: w, t: tf.def(sortBV(w), fmt.Sprintf("((_ %s %d) %s)", ext, w-a.w, a.S()), a.t)}
	}
	return BV{w: w, t: tf.def(sortBV(w), fmt.Sprintf("((_ extract %d 0) %s)", w-1, a.S()), a.t)}
}

func (tf *TermFactory) bvNeg(a BV) BV { return tf.bvBin("sub", cbv(a.w, 0), a, true) }
func (tf *TermFactory) bvNot(a BV) BV {
	if a.t == nil {
		return cbv(a.w, ^a.v)
	}
	return BV{w: a.w, t: tf.def(sortBV(a.w), "(bvnot "+a.S()+")", a.t)}
}

// ---- floating point ----

func (tf *TermFactory) fpBin(op string, a, b FP) FP {
	if a.bits != b.bits {
		panic("fpBin width mismatch")
	}
	if a.t == nil && b.t == nil {
		var r float64
		if a.bits == 32 {
			x, y := float32(a.f), float32(b.f)
			switch op {
			case "add":
				r = float64(x + y)
			case "sub":
				r = float64(x - y)
			case "mul":
				r = float64(x * y)
			case "div":
				r = float64(x / y)
			}
		} else {
			switch op {
			case "add":
				r = a.f + b.f
			case "sub":
				r = a.f - b.f
			case "mul":
				r = a.f * b.f
			case "div":
				r = a.f / b.f
			}
		}
		return cfp(a.bits, r)
	}
	return FP{bits: a.bits, t: tf.def(sortFP(a.bits), "(fp."+op+" RNE "+a.S()+" "+b.S()+")", a.t, b.t)}
}
func (tf *TermFactory) fpCmp(op string, a, b FP) Bool {
	if a.t == nil && b.t == nil {
		switch op {
		case "eq":
			return cbool(a.f == b.f)
		case "ne":
			return cbool(a.f != b.f)
		case "lt":
			return cbool(a.f < b.f)
		case "le":
			return cbool(a.f <= b.f)
		case "gt":
			return cbool(a.f > b.f)
		case "ge":
			return cbool(a.f >= b.f)
		}
	}
	var smt string
	switch op {
	case "eq":
		smt = "fp.eq"
	case "ne":
		return Bool{t: tf.def(sortBool, "(not (fp.eq "+a.S()+" "+b.S()+"))", a.t, b.t)}
	case "lt":
		smt = "fp.lt"
	case "le":
		smt = "fp.leq"
	case "gt":
		smt = "fp.gt"
	case "ge":
		smt = "fp.geq"
	}
	return Bool{t: tf.def(sortBool, "("+smt+" "+a.S()+" "+b.S()+")", a.t, b.t)}
}
func (tf *TermFactory) fpNeg(a FP) FP {
	if a.t == nil {
		return cfp(a.bits, -a.f)
	}
	return FP{bits: a.bits, t: tf.def(sortFP(a.bits), "(fp.neg "+a.S()+")", a.t)}
}
func (tf *TermFactory) fpConv(a FP, bits int) FP {
	if a.bits == bits {
		return a
	}
	if a.t == nil {
		return cfp(bits, a.f)
	}
	e, s := 11, 53
	if bits == 32 {
		e, s = 8, 24
	}
	return FP{bits: bits, t: tf.def(sortFP(bits), fmt.Sprintf("((_ to_fp %d %d) RNE %s)", e, s, a.S()), a.t)}
}
func (tf *TermFactory) intToFP(a BV, signed bool, bits int) FP {
	if a.t == nil {
		if signed {
			return cfp(bits, float64(sext(a.v, a.w)))
		}
		return cfp(bits, float64(a.v&mask(a.w)))
	}
	e, s := 11, 53
	if bits == 32 {
		e, s = 8, 24
	}
	fn := "to_fp_unsigned"
	if signed {
		fn = "to_fp"
	}
	return FP{bits: bits, t: tf.def(sortFP(bits), fmt.Sprintf("((_ %s %d %d) RNE %s)", fn, e, s, a.S()), a.t)}
}

// fpToInt truncates toward zero. Out-of-range behaviour is implementation defined in Go;
// callers add an in-range obligation when that matters.
func (tf *TermFactory) fpToInt(a FP, w int, signed bool) BV {
	if a.t == nil {
		if signed {
			return cbv(w, uint64(int64(a.f)))
		}
		if a.f < 0 {
			return cbv(w, uint64(int64(a.f)))
		}
		return cbv(w, uint64(a.f))
	}
	fn := "fp.to_ubv"
	if signed {
		fn = "fp.to_sbv"
	}
	return BV{w: w, t: tf.def(sortBV(w), fmt.Sprintf("((_ %s %d) RTZ %s)", fn, w, a.S()), a.t)}
}
func (tf *TermFactory) fpRound(a FP) FP { // math.Round: half away from zero
	if a.t == nil {
		return cfp(a.bits, math.Round(a.f))
	}
	return FP{bits: a.bits, t: tf.def(sortFP(a.bits), "(fp.roundToIntegral RNA "+a.S()+")", a.t)}
}
func (tf *TermFactory) fpFloor(a FP) FP {
	if a.t == nil {
		return cfp(a.bits, math.Floor(a.f))
	}
	return FP{bits: a.bits, t: tf.def(sortFP(a.bits), "(fp.roundToIntegral RTN "+a.S()+")", a.t)}
}

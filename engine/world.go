// One World = one path: decision vector, path condition, assertion checking.
package main

import (
	"fmt"
	"go/types"
	"sort"
	"strings"

	"golang.org/x/tools/go/ssa"
)

// Env is the read-only program context shared by all paths.
type Env struct {
	prog     *ssa.Program
	pkgs     map[string]*ssa.Package
	types    map[string]types.Type // well-known stdlib types
	opts     Options
	repoMod  string
	harnessP map[string]bool // package paths that contain harness-only code
}

type Options struct {
	maxPre     int
	maxDelay   int // delay injections
	race       bool
	stepLimit  int
	concLimit  int
	sampleN    int
	traceAll   bool
	maxGo      int
	horizonBit int // virtual time bound: 0 <= now < 2^horizonBit
	params     map[string]int64
	symIdx     bool // keep small slice indexes symbolic (ite-chains) instead of forking over their values
}

type Violation struct {
	Kind      string            `json:"kind"` // assert | panic | race | deadlock | leak
	Label     string            `json:"label"`
	Decisions []int64           `json:"decisions"`
	Model     map[string]string `json:"model,omitempty"`
	Inputs    []NamedVal        `json:"inputs,omitempty"`
	Observed  map[string]string `json:"observed,omitempty"`
	Observes  []NamedVal        `json:"observes,omitempty"`
	Trace     []string          `json:"trace,omitempty"`
	Where     string            `json:"where,omitempty"`
}

type NamedVal struct {
	Name  string `json:"name"`
	Value string `json:"value"`
}

type PathSample struct {
	Decisions []int64           `json:"decisions"`
	Model     map[string]string `json:"model,omitempty"`
	Inputs    []NamedVal        `json:"inputs,omitempty"`
	Observed  map[string]string `json:"observed,omitempty"`
	Observes  []NamedVal        `json:"observes,omitempty"`
	End       string            `json:"end"`
	Trace     []string          `json:"trace,omitempty"`
	Asserts   []string          `json:"asserts_proved,omitempty"`
}

type nondetRec struct {
	name string
	val  Value
}
type observeRec struct {
	name string
	val  Value
}

type World struct {
	env *Env
	tf  TermFactory
	sol *Solver
	pc  []*Term

	prefix []int64
	taken  []int64
	alts   [][]int64

	nobj    int
	globals map[*ssa.Global]*Obj
	inited  map[*ssa.Package]bool

	steps int
	end   string
	trace []string

	reached  map[string]int // label → times checked on this path
	proved   []string
	viols    []Violation
	nondets  []nondetRec
	observes []observeRec
	funcs    map[*ssa.Function]bool
	inconcl  []string
	cut      string
	reaches  map[string]int

	// scheduler state
	gs         []*G
	yielded    chan *G
	abort      chan struct{}
	now        BV
	timers     []*TimerM
	preempt    int
	delays     int
	dueMemo    map[[2]int]bool
	hbOn       bool
	shadows    map[string]*shadow
	vcs        map[interface{}]VC
	raceSeen   map[string]bool
	bgCtx      *Ctx
	todoCtx    *Ctx
	errCanceled, errDeadline Value
	nchan      int
	randN      int
	ctrs       map[string]int64
	panicWhere string
	cells      map[string]Value
}

func (w *World) past() bool { return len(w.taken) >= len(w.prefix) }

func (w *World) fresh(user string, sort string) *Term { return w.tf.sym(user, sort) }

func (w *World) addPC(c Bool) {
	if c.t != nil {
		w.pc = append(w.pc, c.t)
	} else if !c.v {
		panic(pathEnd{"infeasible"})
	}
}

// feasible asks whether pc ∧ c is satisfiable.
func (w *World) feasible(c Bool) bool {
	if c.t == nil {
		return c.v
	}
	r, _ := w.sol.check(append(append([]*Term{}, w.pc...), c.t), false, nil)
	switch r {
	case "sat":
		return true
	case "unsat":
		return false
	}
	w.inconcl = append(w.inconcl, "feasibility: "+r)
	return true // keep the branch (unknown = keep), the path is marked inconclusive
}

// choose picks one of the alternatives whose constraints are feasible; the others are queued.
func (w *World) choose(cons []Bool, what string) int {
	idx := len(w.taken)
	if idx < len(w.prefix) {
		d := int(w.prefix[idx])
		if d >= len(cons) {
			panic(engineErr{fmt.Sprintf("replay divergence at decision %d (%s): %d of %d", idx, what, d, len(cons))})
		}
		w.taken = append(w.taken, int64(d))
		w.addPC(cons[d])
		return d
	}
	var feas []int
	for i, c := range cons {
		if i == len(cons)-1 && len(feas) == 0 && exhaustiveChoice(what) {
			// the alternatives are exhaustive and the path is feasible: the last one must be feasible
			feas = append(feas, i)
			break
		}
		if w.feasible(c) {
			feas = append(feas, i)
		}
	}
	if len(feas) == 0 {
		panic(pathEnd{"infeasible:" + what})
	}
	for _, f := range feas[1:] {
		w.alts = append(w.alts, append(append([]int64{}, w.taken...), int64(f)))
	}
	d := feas[0]
	w.taken = append(w.taken, int64(d))
	w.addPC(cons[d])
	return d
}

func (w *World) decide(c Bool) bool {
	if c.t == nil {
		return c.v
	}
	return w.choose([]Bool{w.tf.not(c), c}, "branch") == 1
}

// concretize forks over the feasible concrete values of a bit-vector (≤ concLimit of them).
func (w *World) concretize(b BV, signed bool, what string) int64 {
	if b.t == nil {
		if signed {
			return sext(b.v, b.w)
		}
		return int64(b.v)
	}
	idx := len(w.taken)
	conv := func(u uint64) int64 {
		if signed {
			return sext(u, b.w)
		}
		return int64(u)
	}
	if idx < len(w.prefix) {
		v := w.prefix[idx]
		w.taken = append(w.taken, v)
		w.addPC(w.tf.bvCmp("eq", b, cbv(b.w, uint64(v)), false))
		return v
	}
	var vals []int64
	extra := []*Term{}
	for len(vals) <= w.env.opts.concLimit {
		as := append(append([]*Term{}, w.pc...), extra...)
		r, m := w.sol.check(as, false, []*Term{b.t})
		if r == "unsat" {
			break
		}
		if r != "sat" {
			w.inconcl = append(w.inconcl, "concretize: "+r)
			break
		}
		dv, ok := decodeValue(b.t.sort, m[b.t])
		if !ok {
			w.inconcl = append(w.inconcl, "concretize: cannot decode "+m[b.t])
			break
		}
		u := dv.(uint64)
		vals = append(vals, conv(u))
		ne := w.tf.bvCmp("ne", b, cbv(b.w, u), false)
		extra = append(extra, ne.t)
	}
	if len(vals) > w.env.opts.concLimit {
		unsupported("concretize(%s): more than %d feasible values", what, w.env.opts.concLimit)
	}
	if len(vals) == 0 {
		panic(pathEnd{"infeasible:concretize " + what})
	}
	sort.Slice(vals, func(i, j int) bool { return vals[i] < vals[j] })
	for _, v := range vals[1:] {
		w.alts = append(w.alts, append(append([]int64{}, w.taken...), v))
	}
	v := vals[0]
	w.taken = append(w.taken, v)
	w.addPC(w.tf.bvCmp("eq", b, cbv(b.w, uint64(v)), false))
	return v
}

func (w *World) assume(c Bool) {
	if c.t == nil {
		if !c.v {
			panic(pathEnd{"assume-false"})
		}
		return
	}
	if w.past() {
		if !w.feasible(c) {
			panic(pathEnd{"assume-false"})
		}
	}
	w.pc = append(w.pc, c.t)
}

func (w *World) modelMaps(m map[*Term]string) (map[string]string, map[string]string) {
	model, obs := map[string]string{}, map[string]string{}
	val := func(v Value) string {
		t := termOf(v)
		if t == nil {
			return describe(v)
		}
		raw, ok := m[t]
		if !ok {
			return "?"
		}
		dv, ok := decodeValue(t.sort, raw)
		if !ok {
			return raw
		}
		switch x := dv.(type) {
		case uint64:
			if bv, isBV := v.(BV); isBV {
				return fmt.Sprint(sext(x, bv.w))
			}
			return fmt.Sprint(x)
		default:
			return fmt.Sprint(x)
		}
	}
	seen := map[string]int{}
	for _, n := range w.nondets {
		k := n.name
		seen[k]++
		if seen[k] > 1 {
			k = fmt.Sprintf("%s#%d", k, seen[k])
		}
		model[k] = val(n.val)
	}
	seen = map[string]int{}
	for _, o := range w.observes {
		k := o.name
		seen[k]++
		if seen[k] > 1 {
			k = fmt.Sprintf("%s#%d", k, seen[k])
		}
		obs[k] = val(o.val)
	}
	return model, obs
}

func (w *World) wantedTerms() []*Term {
	var ts []*Term
	for _, n := range w.nondets {
		if t := termOf(n.val); t != nil {
			ts = append(ts, t)
		}
	}
	for _, o := range w.observes {
		if t := termOf(o.val); t != nil {
			ts = append(ts, t)
		}
	}
	if w.now.t != nil {
		ts = append(ts, w.now.t)
	}
	return ts
}

func (w *World) violation(kind, label, where string, m map[*Term]string) {
	model, obs := w.modelMaps(m)
	ins, outs := w.orderedVals(m)
	w.viols = append(w.viols, Violation{Kind: kind, Label: label, Decisions: append([]int64{}, w.taken...),
		Model: model, Observed: obs, Inputs: ins, Observes: outs, Trace: append([]string{}, w.trace...), Where: where})
}

func (w *World) valString(v Value, m map[*Term]string) string {
	t := termOf(v)
	if t == nil {
		return describe(v)
	}
	raw, ok := m[t]
	if !ok {
		return "?"
	}
	dv, ok := decodeValue(t.sort, raw)
	if !ok {
		return raw
	}
	if x, isU := dv.(uint64); isU {
		if bv, isBV := v.(BV); isBV {
			return fmt.Sprint(sext(x, bv.w))
		}
	}
	return fmt.Sprint(dv)
}

func (w *World) orderedVals(m map[*Term]string) ([]NamedVal, []NamedVal) {
	var ins, outs []NamedVal
	for _, n := range w.nondets {
		ins = append(ins, NamedVal{n.name, w.valString(n.val, m)})
	}
	for _, o := range w.observes {
		outs = append(outs, NamedVal{o.name, w.valString(o.val, m)})
	}
	return ins, outs
}

// currentModel gets a model of the path condition (nil if unavailable).
func (w *World) currentModel() map[*Term]string {
	vals := w.wantedTerms()
	if len(vals) == 0 {
		return map[*Term]string{}
	}
	r, m := w.sol.check(w.pc, false, vals)
	if r != "sat" {
		return nil
	}
	return m
}

func (w *World) assert(c Bool, label, where string) {
	if !w.past() {
		// already checked by the path this one was forked from; a symbolic assertion carries one decision
		// entry saying whether the path went on under the assumption that it held (0) or not (1)
		if c.t != nil {
			d := w.prefix[len(w.taken)]
			w.taken = append(w.taken, d)
			if d == 0 {
				w.pc = append(w.pc, c.t)
			}
		}
		return
	}
	w.reached[label]++
	if c.t == nil {
		if !c.v {
			// a concrete failure counts only if the path condition is (still) known satisfiable
			if r, m := w.sol.check(w.pc, false, w.wantedTerms()); r == "sat" {
				w.violation("assert", label, where, m)
			} else if r != "unsat" {
				w.inconcl = append(w.inconcl, "assert "+label+" failed on a path whose feasibility is unknown: "+r)
			} else {
				panic(pathEnd{"infeasible"})
			}
			// keep going: later assertions on this path (possibly owned by another property's label filter) are still evaluated
			return
		}
		w.proved = append(w.proved, label)
		return
	}
	as := append(append([]*Term{}, w.pc...), c.t)
	r, m := w.sol.check(as, true, w.wantedTerms())
	switch r {
	case "unsat":
		// pc ∧ ¬c unsat and pc sat (the path is feasible) ⇒ pc ∧ c sat: no second query needed
		w.proved = append(w.proved, label)
		w.pc = append(w.pc, c.t)
		w.taken = append(w.taken, 0)
		return
	case "sat":
		w.violation("assert", label, where, m)
	default:
		w.inconcl = append(w.inconcl, "assert "+label+": "+r)
	}
	// continue under the assumption that the assertion held; if it cannot hold on this path at all,
	// continue unconstrained so that later assertions (possibly another property's) are still evaluated
	if w.feasible(c) {
		w.pc = append(w.pc, c.t)
		w.taken = append(w.taken, 0)
	} else {
		w.taken = append(w.taken, 1)
	}
}

func (w *World) tracef(format string, a ...interface{}) {
	if len(w.trace) < 400 {
		w.trace = append(w.trace, fmt.Sprintf(format, a...))
	}
}

func (w *World) isRepoFn(fn *ssa.Function) bool {
	if pos := w.env.prog.Fset.Position(fn.Pos()); pos.IsValid() {
		f := pos.Filename
		if i := strings.LastIndex(f, "/"); i >= 0 {
			f = f[i+1:]
		}
		if strings.HasPrefix(f, "zz") {
			return false
		}
	}
	if fn.Synthetic != "" && fn.Name() == "init" {
		return false
	}
	if fn == nil || fn.Pkg == nil {
		if fn != nil && fn.Origin() != nil && fn.Origin().Pkg != nil {
			p := fn.Origin().Pkg.Pkg.Path()
			return strings.HasPrefix(p, w.env.repoMod) && !w.env.harnessP[p]
		}
		return false
	}
	p := fn.Pkg.Pkg.Path()
	return strings.HasPrefix(p, w.env.repoMod) && !w.env.harnessP[p]
}

func exhaustiveChoice(what string) bool {
	return what == "branch" || what == "due" || what == "next-event"
}

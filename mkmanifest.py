#!/usr/bin/env python3
"""Regenerates MANIFEST.json from registry.py (claimed properties) and NOT_APPLICABLE below."""
import json, os, sys
ROOT = os.path.dirname(os.path.abspath(__file__))
sys.path.insert(0, ROOT)
import registry

NOT_APPLICABLE = registry.NOT_APPLICABLE

checks = []
for pid in sorted(registry.PROPS):
    p = registry.PROPS[pid]
    checks.append({
        "property_id": pid,
        "quick_cmd": "./check %s quick" % pid,
        "thorough_cmd": "./check %s thorough" % pid,
        "evidence_file": "/verif/evidence/%s.json" % pid,
        "replay_cmd_template": "./check %s --replay {path}" % pid,
        "engine": "symgo",
        "level_claimed": {"category": "model_checking", "text": p.get("level_text", registry.DEFAULT_LEVEL_TEXT), "design_ref": p.get("design_ref", "DESIGN.md §8")},
        "level_note": p.get("level_note", registry.DEFAULT_LEVEL_NOTE),
        "technique": p.get("technique", "bounded symbolic execution of the real go/ssa code; every branch and assertion decided by SMT (z3/cvc5)"),
    })
m = {
    "version": 1,
    "setup_cmd": "cd /verif/engine && GOFLAGS=-mod=mod GOPROXY=off GOSUMDB=off GOTOOLCHAIN=local go build -o /verif/bin/symgo .",
    "hooks": {"guard": "verif", "enable": "harness files (build tag verif) are injected as go/packages and go-build overlays under /repo/...; nothing is added to /repo itself",
              "baseline_off_cmd": "cd /repo && GOFLAGS=-mod=mod GOPROXY=off GOSUMDB=off go test -vet=off -count=1 -timeout 25m ./...",
              "source_commits": [], "add_only": True},
    "engines": [{"name": "symgo", "path": "/verif/engine", "serves_properties": sorted(registry.PROPS),
                 "kind_free_text": "own symbolic interpreter over go/ssa (x/tools v0.29.0): symbolic scalars on a concrete heap shape, decision-vector DFS by re-execution, interpreted goroutines with virtual time and bounded preemptions, happens-before race detector; SMT back-ends z3 4.8.12 and cvc5 1.0 over pipes"}],
    "checks": checks,
    "not_applicable": [{"property_id": k, "reason": v} for k, v in sorted(NOT_APPLICABLE.items()) ],
    "notes": "All checks: ./check <id> <tier>; exit 0 held within the stated bounds, 1 VIOLATION (replayed), 2 inconclusive (solver unknown/timeout, engine limit, harness does not compile). Known findings: known_findings.json.",
}
json.dump(m, open(os.path.join(ROOT, "MANIFEST.json"), "w"), indent=1)
print("MANIFEST.json: %d checks, %d not_applicable" % (len(checks), len(m["not_applicable"])))

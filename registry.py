"""Property → harness jobs (bounds per tier). See DESIGN.md §8 for what each harness asserts."""
MOD = "github.com/failsafe-go/failsafe-go"

SOLVER_VERSIONS = {"z3": "4.8.12", "z3-new": "5.1.0", "cvc5": "1.0.x (--solve-bv-as-int=sum for time arithmetic, --fp-exp for FP)"}

TRUSTED_BASE = [
    "symgo SSA interpreter (engine/*.go): value/heap model, instruction semantics, decision-vector DFS",
    "SMT solvers z3 / cvc5 (sequential portfolio; unknown/timeout = inconclusive, never success)",
    "environment stubs: time.Now/Since/NewTimer/AfterFunc/Sleep (virtual non-decreasing clock), sync.Mutex, sync/atomic, context.*, errors.Is/As, reflect.DeepEqual/TypeOf, math.Round, math/rand.Float32/64 (arbitrary value in [0,1)), fmt.* (opaque strings), channels/select/go (engine-native)",
    "go/packages + go/ssa (x/tools v0.29.0) translation of /repo's current source",
]

COMMON_ASSUMPTIONS = [
    "virtual clock is non-decreasing and stays below 2^47 ns",
    "results are explored within the bounds listed under coverage.bounds; anything outside them is not claimed",
]


def J(pkg, fn, **kw):
    d = {"entry": "%s/%s.%s" % (MOD, pkg, fn) if pkg else "%s.%s" % (MOD, fn), "solver": "z3", "qtimeout_s": 60, "time_limit_s": 600}
    d.update(kw)
    return d


INT = "cvc5int,z3"   # time arithmetic (div/rem/mul by constants)
FPS = "cvc5,z3"      # floating point

PROPS = {}


def Z(fn, **kw):
    return J("zzverif", fn, **kw)


def L2(fn, p=1, d=0, **kw):
    kw.setdefault("time_limit_s", 600)
    kw.setdefault("solver", "cvc5int,z3")  # time-order queries: 10-40x faster than bit-blasting (measured on the hedge scenarios)
    return Z(fn, preempt=p, delays=d, race=True, **kw)


_cmp_q = dict(params={"depth": 2, "execs": 2, "max_inv": 3, "max_retries": 1, "handles": 3, "via_attempts": 0}, native=True, time_limit_s=900,
              note="every ordered composition (with repetition) of depth<=2 of {retry,breaker,fallback,cache,bulkhead,limiter,timeout}; 2 successive executions; <=3 invocations per execution; maxRetries<=1; results symbolic")
_cmp_t = dict(params={"depth": 3, "execs": 1, "max_inv": 3, "max_retries": 1, "handles": 2}, native=True, time_limit_s=9000,
              note="every ordered composition (with repetition) of depth<=3; 1 execution; <=3 invocations; maxRetries<=1; 2 handle-condition kinds")
_cmp_t2 = dict(params={"depth": 2, "execs": 2, "max_inv": 4, "max_retries": 2, "handles": 3}, native=True, time_limit_s=9000,
               note="every ordered composition of depth<=2; 2 successive executions; <=4 invocations; maxRetries<=2; 3 handle-condition kinds")
_ret_q = dict(params={"execs": 2, "max_inv": 4, "max_retries": 2, "unlimited": 1}, native=True, note="retry alone: maxRetries in {-1,0,1,2}, all handle/abort/ReturnLastFailure configs, scripts<=4 per execution, 2 successive executions")
_ret_q2 = dict(params={"execs": 1, "max_inv": 3, "max_retries": 2, "unlimited": 1, "via_attempts": 1, "delay_fn": 1}, native=True, note="retry alone, configured through WithMaxAttempts or WithMaxRetries, with or without a delay function that records what it is shown; scripts<=3")
_ret_t = dict(params={"execs": 2, "max_inv": 6, "max_retries": 4, "unlimited": 1, "via_attempts": 1, "delay_fn": 1}, native=True, time_limit_s=3000, note="retry alone: maxRetries in {-1..4}, scripts<=6, 2 successive executions")
_retn = dict(params={"execs": 1, "max_inv": 4, "max_retries": 2}, native=True, note="retry directly under/over each other policy kind; scripts<=4")
_fb_q = dict(params={"execs": 2, "max_inv": 3, "max_retries": 1}, native=True, note="fallback kinds x handle conditions x inner {none, each policy kind}; 2 executions")
_ca_q = dict(params={"execs": 2, "max_inv": 2, "max_retries": 1, "handles": 3}, native=True, note="cache x {none,retry,breaker,bulkhead,cache} inner; configured/context/non-string keys; symbolic prefilled content; 2 executions")

PROPS["C01"] = {"quick": [Z("ZZ_C01_Compose", labels=["nesting:"], **_cmp_q),
                          L2("ZZ_S07d_RetryTimeoutCtx", 1, labels=["timeout: ErrExceeded only", "cancel:"], note="Retry(Timeout(fn)) + caller cancel: the caller receives the outermost policy's error, not a stale inner timeout result from an earlier, already retried attempt; P=1"),
                          L2("ZZ_S07e_TimeoutOutside", 1, labels=["nesting:"], note="Timeout(T)(Bulkhead|Breaker(fn sleeping d)), T,d symbolic: the inner policy post-processes the function's outcome also when the timeout fires; P=1")],
                "thorough": [Z("ZZ_C01_Compose", labels=["nesting:"], **_cmp_t), Z("ZZ_C01_Compose", labels=["nesting:"], **_cmp_t2), L2("ZZ_S07e_TimeoutOutside", 3, labels=["nesting:"], note="P=3"),
                             L2("ZZ_S07d_RetryTimeoutCtx", 2, labels=["timeout: ErrExceeded only", "cancel:"], time_limit_s=3000, note="Retry(Timeout(fn)) + caller cancel; P=2")],
                "assumptions": ["hedge policy and firing timeouts/blocking waits are covered per policy (C06-C09), not inside the sequential composition", "unlimited retries only where every attempt reaches the function"]}
PROPS["C02"] = {"quick": [Z("ZZ_C02_Retry", labels=["nesting:", "stats:"], **_ret_q), Z("ZZ_C02_Retry", labels=["nesting:", "stats:"], **_ret_q2), Z("ZZ_C02_RetryNested", labels=["nesting:"], **_retn)],
                "thorough": [Z("ZZ_C02_Retry", labels=["nesting:", "stats:"], **_ret_t), Z("ZZ_C02_RetryNested", labels=["nesting:"], **_retn)],
                "assumptions": ["abort-matching outcome on the exhausting attempt: the implementation's choice (ExceededError unless ReturnLastFailure) is accepted, the statement does not decide it"]}
PROPS["C10"] = {"quick": [Z("ZZ_C10_Fallback", labels=["fallback:", "nesting:"], **_fb_q), L2("ZZ_S07c_TimeoutFallback", 1, labels=["fallback:"], note="fallback function running while an enclosing Timeout fires: keeps seeing the failed outcome, applied once; P=1")],
                "thorough": [Z("ZZ_C10_Fallback", labels=["fallback:", "nesting:"], params={"execs": 2, "max_inv": 4, "max_retries": 2}, native=True, time_limit_s=9000, note="fallback kinds x handle conditions x inner policy; 2 executions; <=4 invocations; maxRetries<=2"),
                             L2("ZZ_S07c_TimeoutFallback", 3, labels=["fallback:"], note="P=3")]}
PROPS["C11"] = {"quick": [Z("ZZ_C11_Cache", labels=["cache:", "nesting:"], **_ca_q),
                          L2("ZZ_C11b_OverlappingKeys", 1, labels=["cache:"], note="two executions with different context keys through one cache policy, nested or concurrent (symbolic durations): each result stored under its own key; P=1")],
                "thorough": [Z("ZZ_C11_Cache", labels=["cache:", "nesting:"], params={"execs": 3, "max_inv": 3, "max_retries": 1, "handles": 3}, native=True, time_limit_s=9000, note="3 executions; <=3 invocations; all key kinds; symbolic prefilled content"),
                             L2("ZZ_C11b_OverlappingKeys", 3, labels=["cache:"], note="overlapping executions with different context keys; P=3")]}
PROPS["C12"] = {
    "quick": [J("policy", "ZZ_H12a_IsFailure", native=True, params={"max_regs": 3}, note="every order/subset of <=3 handle registrations x 16 error shapes x symbolic results"),
              J("policy", "ZZ_H12b_IsAbortable", native=True, params={"max_regs": 3}, note="every order/subset of <=3 abort registrations x 16 error shapes"),
              J("policy", "ZZ_H12c_ResultShapes", native=True, note="HandleResult/AbortOnResult on pointer, pointer-holding struct, slice and struct result types: fresh but deeply equal values match; handled and returned field symbolic")],
    "thorough": [J("policy", "ZZ_H12a_IsFailure", native=True, params={"max_regs": 4}, time_limit_s=1500, note="<=4 registrations"),
                 J("policy", "ZZ_H12b_IsAbortable", native=True, params={"max_regs": 4}, time_limit_s=1500, note="<=4 registrations"),
                 J("policy", "ZZ_H12c_ResultShapes", native=True, note="result conditions on pointer / pointer-holding struct / slice / struct result types")],
    "assumptions": ["error shapes from the stated catalogue (nil, sentinel, wrapped 1-2 levels, joined, typed by value and by pointer receiver)", "AbortOnResult on an outcome that also carries an error: either answer accepted (not specified)"],
}
_cmp_q1 = dict(params={"depth": 2, "execs": 1, "max_inv": 3, "max_retries": 1, "handles": 3}, native=True, time_limit_s=900,
               note="every ordered composition (with repetition) of depth<=2; 1 execution; <=3 invocations; maxRetries<=1; 3 handle-condition kinds")
PROPS["C16"] = {"quick": [Z("ZZ_C01_Compose", labels=["events:"], **_cmp_q1), L2("ZZ_S06a_Bulkhead", 0, params={"max_m": 1}, labels=["events:"], note="OnFull exactly for ErrFull rejections (cancellation while waiting is not 'full'); P=0"),
                          L2("ZZ_S07a_Timeout", 2, labels=["timeout: listener"], note="OnTimeoutExceeded exactly when the timeout result wins; P=2")], "thorough": [Z("ZZ_C01_Compose", labels=["events:"], **_cmp_t2), L2("ZZ_S06a_Bulkhead", 1, params={"max_m": 1}, labels=["events:"], note="OnFull; P=1"), L2("ZZ_S07a_Timeout", 3, labels=["timeout: listener"], note="P=3"), L2("ZZ_S09a_Hedge", 2, params={"max_hedges": 2}, labels=["events:"], note="OnHedge; P=2")],
                "assumptions": ["sequential executions; hedge/timeout/bulkhead-wait events under concurrency are asserted in the Layer-2 scenarios"]}
PROPS["C17"] = {"quick": [Z("ZZ_C01_Compose", labels=["stats:"], **_cmp_q1), L2("ZZ_S09a_Hedge", 1, params={"max_hedges": 1}, labels=["stats:"], note="overlapping hedge attempts: Attempts/Hedges/IsHedge inside each attempt; P=1"),
                          L2("ZZ_S17b_RetryHedgeStats", 1, labels=["stats:"], note="Retry(Hedge(fn)): Attempts = 1+Retries+Hedges in OnRetry/OnDone; P=1"),
                          L2("ZZ_S07b_RetryTimeout", 1, labels=["stats:"], note="Retry(Timeout(fn)): LastResult/LastError seen by the second attempt before and after its own timeout fires; P=1"),
                          Z("ZZ_C02_Retry", labels=["stats:"], **_ret_q2)], "thorough": [Z("ZZ_C01_Compose", labels=["stats:"], **_cmp_t2), L2("ZZ_S09a_Hedge", 2, params={"max_hedges": 2}, labels=["stats:"], note="P=2"), L2("ZZ_S17b_RetryHedgeStats", 2, labels=["stats:"], note="P=2"), L2("ZZ_S07b_RetryTimeout", 2, labels=["stats:"], note="P=2"), Z("ZZ_C02_Retry", labels=["stats:"], **_ret_t)],
                "assumptions": ["start/elapsed time monotonicity follows from the virtual clock being non-decreasing; overlapping hedges are asserted in the hedge scenario (C09)"]}


PROPS["C05"] = {
    "quick": [
        J("ratelimiter", "ZZ_H05a_SmoothStep", solver=INT, native=True, note="inductive step from arbitrary valid state; intervals {1,3,7ns,1us,1ms,333333333ns,1s}; k<=1024; t<2^47; N<2^50"),
        J("ratelimiter", "ZZ_H05b_BurstyStep", solver=INT, native=True, params={"bursty_cfgs": 5},
          note="inductive step from arbitrary valid state; (M,P) in {(1,1s),(2,1s),(2,50ms),(4,1s),(8,7ns)}; deficit>=-2^20; k<=1024; t<2^47"),
        J("ratelimiter", "ZZ_H05c_KAtOnce", solver=INT, native=True, params={"bursty_cfgs": 3, "smooth_cfgs": 3}, note="k<=4 at once vs k singles at the same instant"),
        J("ratelimiter", "ZZ_H05g_PublicAPI", solver=INT, native=True, note="every public permit method (Try/Reserve/TryReserve, 1 or k<=8 permits, symbolic max wait/instant/state) vs the kernel on a twin"),
        J("ratelimiter", "ZZ_H05e_History", solver=INT, native=True, params={"ops": 3, "bursty_cfgs": 2, "smooth_cfgs": 2},
          note="history of 3 single-permit requests (TryReservePermit with symbolic max wait) at symbolic non-decreasing instants on a freshly built limiter, against the property as stated (greedy earliest assignment; <=M usable per slot/period); smooth {1,3 ns} via both builders, bursty {(1,1s),(2,1s)}"),
        L2("ZZ_S05f_BlockingAcquire", 1, solver=INT, labels=["limiter:"], note="blocking AcquirePermit(ctx) on a smooth / bursty limiter (1 permit per 1000 ns), symbolic request instants and cancellation; P=1"),
    ],
    "assumptions": ["requested permits k >= 1", "stopwatch non-decreasing", "blocking acquire: interval/period 1 us, one permit per slot/period", "interval/period taken from the stated grid; bursty maxExecutions is a power of two (division of a symbolic deficit by 3, 5, 10 or 100 is not decided by any installed solver within 60 s)"],
}
PROPS["C05"]["thorough"] = [
    J("ratelimiter", "ZZ_H05a_SmoothStep", solver=INT, native=True, time_limit_s=3000, note="inductive step; all 7 intervals; k<=1024; t<2^47; N<2^50"),
    J("ratelimiter", "ZZ_H05b_BurstyStep", solver=INT, native=True, params={"bursty_cfgs": 5, "deficit_bits": 30}, time_limit_s=3000, note="inductive step; 5 (M,P) pairs; deficit>=-2^30; k<=1024; t<2^47"),
    J("ratelimiter", "ZZ_H05c_KAtOnce", solver=INT, native=True, params={"bursty_cfgs": 5, "smooth_cfgs": 7}, time_limit_s=3000, note="k<=4 at once vs k singles; all grids"),
    J("ratelimiter", "ZZ_H05g_PublicAPI", solver=INT, native=True, time_limit_s=3000, note="public permit API vs kernel twin"),
    J("ratelimiter", "ZZ_H05e_History", solver=INT, native=True, params={"ops": 4, "bursty_cfgs": 3, "smooth_cfgs": 3}, time_limit_s=3000,
      note="history of 4 single-permit requests on a freshly built limiter vs the property as stated; smooth {1,3,7 ns} via both builders, bursty {(1,1s),(2,1s),(2,50ms)}"),
    L2("ZZ_S05f_BlockingAcquire", 3, solver=INT, labels=["limiter:"], time_limit_s=3000, note="blocking acquire; P=3"),
]

PROPS["C03"] = {
    "quick": [
        J("circuitbreaker", "ZZ_H03a_RingStep", solver="z3", native=True, params={"max_ring": 6}, note="inductive ring step, capacity 1..6, arbitrary bits/head/occupancy under Inv_c; real bitset package interpreted"),
        J("circuitbreaker", "ZZ_H03c_TimedStep", solver=INT, native=True, params={"bucket_base": 1, "bucket_cfgs": 2}, note="inductive time-bucket step; bucketNanos in {7,100}; head on grid {0,10,10^6}+ring position; arbitrary counts<2^16; t symbolic <2^47"),
        J("circuitbreaker", "ZZ_H03b_RateLemma", solver=FPS, native=True, params={"max_n": 8}, note="failureRate/successRate of both stats types = rounded percentage for all 0<=x<=n<=8 (FP division of symbolic ints)"),
        J("circuitbreaker", "ZZ_H03d_StateStep", solver="z3", native=True, params={"max_cap": 4}, note="inductive state step from an arbitrary window content (symbolic success/failure counts, expiry/eviction nondeterministic) in closed / half-open / open state: 4 configuration families with symbolic thresholds (capacity<=4, rate 1..100), symbolic delay and clock; decision, permits, events, remaining delay"),
        J("circuitbreaker", "ZZ_H03g_History", solver=INT, native=True, params={"ops": 3, "record_ops": 2}, time_limit_s=900, note="bounded history (3 ops incl. RecordResult/RecordError) through the public API vs reference machine; 7 configurations (count, ratio, success-threshold, period-count, period-rate); symbolic delay/instants (count-based), boundary grid (time-based)"),
    ],
    "thorough": [
        J("circuitbreaker", "ZZ_H03a_RingStep", solver="z3", native=True, params={"max_ring": 12}, time_limit_s=1500, note="inductive ring step, capacity 1..12"),
        J("circuitbreaker", "ZZ_H03c_TimedStep", solver=INT, native=True, time_limit_s=1500, note="inductive time-bucket step; bucketNanos in {1,7,100,10^8,6*10^9}"),
        J("circuitbreaker", "ZZ_H03b_RateLemma", solver=FPS, native=True, params={"max_n": 32}, time_limit_s=3000, qtimeout_s=300, note="rate lemma for n<=32"),
        J("circuitbreaker", "ZZ_H03d_StateStep", solver="z3", native=True, params={"max_cap": 8}, time_limit_s=3000, note="inductive state step, capacities <= 8"),
        J("circuitbreaker", "ZZ_H03g_History", solver=INT, native=True, params={"ops": 3, "record_ops": 2}, time_limit_s=3000, note="bounded history (3 ops) vs reference machine; all 7 configurations"),
        J("circuitbreaker", "ZZ_H03g_History", solver=INT, native=True, params={"ops": 4, "cfgs": 4}, time_limit_s=5000, note="bounded history (4 ops) vs reference machine; the 4 count/ratio/success-threshold configurations"),
    ],
    "assumptions": ["clock non-decreasing", "thresholding period divisible by 10", "ring capacity <= 12 (one bitset word)", "bucket counts < 2^16", "record calls in half-open state are preceded by a permit (protocol use)"],
}

_L2NOTE = "interpreted goroutines, virtual time (symbolic durations/instants, every feasible time order incl. ties), all schedules within the preemption bound, HB race detector on"

PROPS["C07"] = {
    "quick": [L2("ZZ_S07a_Timeout", 2, note="Timeout(T)(fn): T,d symbolic<2^40, sleeping and block-until-cancelled fn; P=2; " + _L2NOTE),
              L2("ZZ_S07b_RetryTimeout", 1, note="Retry(max 1)(Timeout(T)(fn)): T,d1,d2 symbolic; P=1"),
              L2("ZZ_S07c_TimeoutFallback", 1, note="Timeout(Fallback(fn)) and Fallback(Timeout(fn)), symbolic fn and fallback durations; P=1"),
              L2("ZZ_S07f_TimeoutCtxCancel", 1, note="Timeout(T)(fn) cancelled through the caller's context at a symbolic instant, sync/async, fn returning the context error or a result: context.Canceled unchanged, listener never called, timer stopped; P=1"),
              L2("ZZ_S07d_RetryTimeoutCtx", 1, note="Retry(Timeout(fn)) + caller cancel at symbolic instant (tie d1=T excluded): ErrExceeded only if the last attempt's Timeout fired; P=1")],
    "thorough": [L2("ZZ_S07a_Timeout", 3, note="P=3"), L2("ZZ_S07b_RetryTimeout", 2, time_limit_s=2000, note="P=2"),
                 L2("ZZ_S07c_TimeoutFallback", 2, time_limit_s=2000, note="P=2"), L2("ZZ_S07d_RetryTimeoutCtx", 2, time_limit_s=3000, note="P=2"), L2("ZZ_S07f_TimeoutCtxCancel", 2, note="P=2")],
    "labels": ["timeout:", "retry:", "fallback:", "cancel:"],
}
PROPS["C06"] = {
    "quick": [L2("ZZ_S06a_Bulkhead", 0, params={"max_m": 1}, labels=["bulkhead:"], note="m=1, 2 async executions + optional standalone holder + optional context cancel at symbolic instant; maxWait 0 or symbolic; P=0 (all time orders)"),
              L2("ZZ_S06a_Bulkhead", 1, params={"max_m": 1}, labels=["bulkhead:"], time_limit_s=900, note="same, P=1"),
              L2("ZZ_S06b_StandaloneWaiter", 1, labels=["bulkhead:"], note="full bulkhead(1): running holder, standalone AcquirePermit(ctx) waiter cancelled at symbolic instant, late third execution; P=1")],
    "thorough": [L2("ZZ_S06a_Bulkhead", 1, params={"max_m": 2}, labels=["bulkhead:"], time_limit_s=9000, note="m<=2, 3 executions, P=1"),
                 L2("ZZ_S06a_Bulkhead", 2, params={"max_m": 1}, labels=["bulkhead:"], time_limit_s=9000, note="m=1, 2 executions, P=2"),
                 L2("ZZ_S06b_StandaloneWaiter", 2, labels=["bulkhead:"], time_limit_s=9000, note="standalone waiter; P=2")],
}
PROPS["C09"] = {
    "quick": [L2("ZZ_S09a_Hedge", 1, params={"max_hedges": 1}, labels=["hedge:", "stats:", "events:"], note="maxHedges=1, D,d0,d1 symbolic<2^30, cancel-on-any / cancel-on-first-only; P=1"),
              L2("ZZ_S09a_Hedge", 0, params={"max_hedges": 2}, labels=["hedge:", "stats:", "events:"], note="maxHedges<=2, P=0 (all time orders)"),
              L2("ZZ_S09b_HedgePlacements", 0, labels=["hedge:", "events:"], note="Retry(Hedge), Timeout(Hedge), Fallback(Hedge); P=0 (all time orders)")],
    "thorough": [L2("ZZ_S09a_Hedge", 2, params={"max_hedges": 2}, labels=["hedge:", "stats:", "events:"], time_limit_s=9000, note="maxHedges<=2, P=2"),
                 L2("ZZ_S09a_Hedge", 3, params={"max_hedges": 1}, labels=["hedge:", "stats:", "events:"], time_limit_s=9000, note="maxHedges=1, P=3"),
                 L2("ZZ_S09b_HedgePlacements", 1, labels=["hedge:", "events:"], time_limit_s=9000, note="placements; P=1 (P=2 did not finish within 13 minutes on the loaded machine after the per-round assertion was added and is not registered)")],
    "assumptions": ["when the hedge timer and an accepted result become ready at the same instant the coordinator's select may take either; an attempt launched in that tie is accepted (it must find itself cancelled)"],
}
PROPS["C08"] = {
    "quick": [L2("ZZ_S08a_CancelRetry", 1, labels=["cancel:", "retry:"], note="Retry(max 2, delay symbolic)(optional failing Fallback)(fn) with one source: ctx cancel / ctx cancel with cause / ctx deadline / ExecutionResult.Cancel / enclosing Timeout at a symbolic instant; P=1"),
              L2("ZZ_S08a_CancelRetry", 2, params={"src": 2}, labels=["cancel:", "retry:"], note="ExecutionResult.Cancel racing the retry loop; P=2"),
              L2("ZZ_S08b_CancelWaits", 1, labels=["cancel:"], note="context cancel / ExecutionResult.Cancel while a rate-limiter / bulkhead wait is in progress (retry outside resp. inside); P=1"),
              L2("ZZ_S08c_CancelHedge", 1, labels=["cancel:"], note="hedged execution (delay symbolic, matching / non-matching cancel conditions) cancelled through its context at a symbolic instant; P=1")],
    "thorough": [L2("ZZ_S08a_CancelRetry", 3, labels=["cancel:", "retry:"], time_limit_s=3000, note="all sources, P=3"),
                 L2("ZZ_S08b_CancelWaits", 3, labels=["cancel:"], note="P=3"), L2("ZZ_S08c_CancelHedge", 2, labels=["cancel:"], note="P=2")],
    "assumptions": ["cooperating functions take no virtual time, so 'promptly' is: the execution ends at the cancellation instant"],
}
PROPS["C04"] = {
    "quick": [L2("ZZ_S04a_BreakerOpen", 0, params={"execs": 2}, labels=["breaker:"], time_limit_s=900, note="threshold 1, delay symbolic, 2 executions with symbolic offsets/durations/outcomes; P=0 (all time orders)"),
              L2("ZZ_S04b_HalfOpen", 1, params={"max_cap": 1}, labels=["breaker:"], note="half-open capacity 1, 2 executions (one optionally under retry / firing timeout); P=1")],
    "thorough": [L2("ZZ_S04a_BreakerOpen", 1, params={"execs": 3}, labels=["breaker:"], time_limit_s=3000, note="3 executions, P=1"),
                 L2("ZZ_S04b_HalfOpen", 1, params={"max_cap": 2}, labels=["breaker:"], time_limit_s=3000, note="capacity<=2, 3 executions, P=1")],
}
PROPS["C15"] = {
    "quick": [L2("ZZ_S15a_Async", 1, params={"readers": 2}, labels=["async:", "events:"], note="4 async entry points x {none, retry, fallback∘retry} x outcome scripts; 2 concurrent readers; sync≡async; P=1"),
              L2("ZZ_S08a_CancelRetry", 2, params={"src": 2}, labels=["cancel: ExecutionResult.Cancel"], note="Cancel before completion under retry ⇒ ErrExecutionCanceled; P=2"),
              L2("ZZ_S08c_CancelHedge", 1, labels=["cancel: ExecutionResult.Cancel"], note="Cancel before completion under a hedge policy ⇒ ErrExecutionCanceled; P=1")],
    "thorough": [L2("ZZ_S15a_Async", 2, params={"readers": 2}, labels=["async:", "events:"], time_limit_s=9000, note="P=2"),
                 L2("ZZ_S08a_CancelRetry", 3, params={"src": 2}, labels=["cancel: ExecutionResult.Cancel"], time_limit_s=9000, note="Cancel racing the retry loop; P=3")],
    "assumptions": ["IsDone is set one step before Done is closed; 'exactly from then on' is read up to that linearisation window"],
}
_c14 = [L2("ZZ_S07b_RetryTimeout", 1, labels=["concurrency:"], note="the execution handed to the user function is not modified by the timeout goroutine; P=1"),
        L2("ZZ_S04b_HalfOpen", 1, params={"max_cap": 1}, labels=["breaker:"], note="the per-execution breaker properties under concurrent executions sharing the breaker (C14: every property above continues to hold)"),
        L2("ZZ_S14a_SharedPolicies", 1, params={"execs": 2}, labels=["concurrency:"], note="2 executions (sync/async) through Retry(Breaker(RateLimiter(Bulkhead))) + standalone API calls on the shared instances; P=1"),
        L2("ZZ_S14b_HedgeInner", 1, labels=["concurrency:"], note="Hedge(Retry(fn)) and Timeout(Hedge(fn)); P=1"),
        L2("ZZ_S07a_Timeout", 2, labels=["concurrency:"], note="race/deadlock/panic verdicts of the timeout scenario"),
        L2("ZZ_S09a_Hedge", 1, params={"max_hedges": 1}, labels=["concurrency:"], note="race/deadlock/panic verdicts of the hedge scenario"),
        L2("ZZ_S15a_Async", 1, params={"readers": 2}, labels=["concurrency:"], note="race/deadlock/panic verdicts of the async scenario"),
        L2("ZZ_S06a_Bulkhead", 0, params={"max_m": 1}, labels=["concurrency:"], note="race/deadlock/panic verdicts of the bulkhead scenario"),
        L2("ZZ_S08c_CancelHedge", 1, params={"max_hedges": 2}, labels=["concurrency:"], note="hedged execution (maxHedges 2) cancelled during a hedge delay while several attempts are outstanding: the attempt goroutines do not block each other or the coordinator (deadlock verdicts); P=1")]
_c14t = [L2("ZZ_S07b_RetryTimeout", 2, labels=["concurrency:"], note="P=2"), L2("ZZ_S04b_HalfOpen", 2, params={"max_cap": 1}, labels=["breaker:"], note="P=2"),
         L2("ZZ_S14a_SharedPolicies", 2, params={"execs": 2}, labels=["concurrency:"], time_limit_s=9000, note="P=2"), L2("ZZ_S14b_HedgeInner", 2, labels=["concurrency:"], note="P=2"),
         L2("ZZ_S07a_Timeout", 3, labels=["concurrency:"], note="P=3"), L2("ZZ_S09a_Hedge", 2, params={"max_hedges": 2}, labels=["concurrency:"], time_limit_s=9000, note="P=2"),
         L2("ZZ_S15a_Async", 2, params={"readers": 2}, labels=["concurrency:"], time_limit_s=9000, note="P=2"), L2("ZZ_S06a_Bulkhead", 1, params={"max_m": 1}, labels=["concurrency:"], time_limit_s=9000, note="P=1"),
         L2("ZZ_S08a_CancelRetry", 2, labels=["concurrency:"], note="P=2"), L2("ZZ_S02d_ConcurrentBudgets", 2, labels=["concurrency:"], time_limit_s=9000, note="P=2"),
         L2("ZZ_S08c_CancelHedge", 1, params={"max_hedges": 2}, labels=["concurrency:"], note="hedged execution (maxHedges 2) cancelled during a hedge delay; P=1")]
PROPS["C14"] = {"quick": _c14, "thorough": _c14t,
                "assumptions": ["bounded exploration, not a proof of race freedom; verdicts are happens-before based, so one explored schedule exposes a race that needs a rare schedule to manifest"]}
_c19 = [L2("ZZ_S07a_Timeout", 1, labels=["leak:"], note="quiescence after Timeout executions"), L2("ZZ_S07b_RetryTimeout", 1, labels=["leak:"], note="after Retry(Timeout)"),
        L2("ZZ_S09a_Hedge", 1, params={"max_hedges": 1}, labels=["leak:"], note="after hedged executions"), L2("ZZ_S08a_CancelRetry", 1, labels=["leak:"], note="after cancelled executions"),
        L2("ZZ_S08b_CancelWaits", 1, labels=["leak:"], note="after cancelled waits"), L2("ZZ_S08c_CancelHedge", 1, labels=["leak:"], note="after a cancelled hedged execution"), L2("ZZ_S08c_CancelHedge", 1, params={"max_hedges": 2}, labels=["leak:"], tp=1, note="same with maxHedges 2 (two outstanding attempts)"), L2("ZZ_S15a_Async", 1, params={"readers": 1}, labels=["leak:"], note="async runner"),
        L2("ZZ_S06a_Bulkhead", 0, params={"max_m": 1}, labels=["leak:"], note="after bulkhead executions"),
        L2("ZZ_S07f_TimeoutCtxCancel", 1, labels=["leak:"], note="Timeout execution ended by context cancellation: timer stopped, nothing left")]
PROPS["C19"] = {"quick": _c19, "thorough": _c19}

def FP(fn, **kw):
    kw.setdefault("time_limit_s", 900)
    return J("retrypolicy", fn, solver=FPS, native=True, **kw)

_m3 = {"mags": 3, "mag_base": 4}
PROPS["C13"] = {
    "quick": [FP("ZZ_H13a_Jitter", params=_m3, note="jitter in {1s,59.000000001s,60s}; delay symbolic<2^47; random symbolic in [0,1)"),
              FP("ZZ_H13c_RandomRange", params=_m3, note="delayMin/Max from the same grid; random symbolic"),
              FP("ZZ_H13b_JitterFactor", params=_m3, note="delay from grid x factor {0.1,0.25,0.5,1}; float32 random symbolic; tolerance 2^-22 relative"),
              FP("ZZ_H13e_Clamp", note="max-duration clamp, all quantities symbolic"),
              FP("ZZ_H13f_DelayFunc", params=_m3, note="delay function value symbolic"),
              FP("ZZ_H13i_BuilderEnvelope", params={"mags": 1, "mag_base": 5}, note="whole getDelay of policies configured through the public builder (fixed, backoff, random, replaced configurations, delay function) x jitter kinds x max duration (symbolic, with symbolic elapsed times); 2 consecutive retries for backoff; magnitude 59.000000001s"),
              FP("ZZ_H13g_Sequence", params={"mags": 2, "mag_base": 4}, note="3 consecutive getDelay calls, backoff x{1.5,2} with jitter or jitter factor; all random draws symbolic"),
              L2("ZZ_S13h_RetryDelay", 1, labels=["delay:", "events:", "retry:"], note="Retry(delay D symbolic, optional max duration)(fn sleeping d): next attempt starts exactly when the scheduled delay elapsed; P=1")],
    "thorough": [FP("ZZ_H13a_Jitter", time_limit_s=3000, note="all 14 magnitudes 1us..1h incl. 2^24+1, 2^31-1, 2^40+1"),
                 FP("ZZ_H13c_RandomRange", time_limit_s=3000, note="all magnitude pairs"),
                 FP("ZZ_H13b_JitterFactor", time_limit_s=3000, note="all 14 magnitudes x 4 factors"),
                 FP("ZZ_H13d_BackoffStep", time_limit_s=3000, qtimeout_s=300, note="one backoff step, lastDelay and maxDelay symbolic<2^47, factor {1.5,2,3,10}"),
                 FP("ZZ_H13e_Clamp"), FP("ZZ_H13f_DelayFunc"),
                 FP("ZZ_H13i_BuilderEnvelope", time_limit_s=3000, note="builder-configured policies x jitter x max duration; all 14 magnitudes"),
                 FP("ZZ_H13g_Sequence", time_limit_s=3000, note="all 14 magnitudes"),
                 L2("ZZ_S13h_RetryDelay", 2, labels=["delay:", "events:", "retry:"], note="P=2")],
    "assumptions": ["configuration magnitudes come from the stated grid (float multiplication of two symbolic operands is not decided by any installed solver within 300 s); random draws, elapsed time, delay-function values and the previous backoff delay are symbolic",
                    "float32 rounding of the delay (2^-22 relative) is tolerated where the code computes in float32"],
}
PROPS["C02"]["quick"].append(L2("ZZ_S02d_ConcurrentBudgets", 1, labels=["retry:", "stats:"], note="two concurrent async executions sharing one retry policy (max 1 retry), symbolic durations/outcomes; P=1"))
PROPS["C02"]["thorough"].append(L2("ZZ_S02d_ConcurrentBudgets", 2, labels=["retry:", "stats:"], time_limit_s=3000, note="P=2"))
PROPS["C02"]["quick"].append(L2("ZZ_S02e_NestedMaxDuration", 0, labels=["retry:", "stats:"], note="Retry(max 2)(Retry(max 3, max duration M)(fn sleeping d)), M,d symbolic: the inner policy gives up once (count or duration) and is not consulted again; P=0"))
PROPS["C02"]["thorough"].append(L2("ZZ_S02e_NestedMaxDuration", 1, labels=["retry:", "stats:"], note="P=1"))
PROPS["C16"]["quick"].append(L2("ZZ_S02e_NestedMaxDuration", 0, labels=["events:"], note="nested retry policies with an inner max duration: OnRetriesExceeded once per policy and execution, OnRetry once per retry started; P=0"))
PROPS["C16"]["thorough"].append(L2("ZZ_S02e_NestedMaxDuration", 1, labels=["events:"], note="P=1"))
PROPS["C02"]["quick"].append(L2("ZZ_S13h_RetryDelay", 1, labels=["retry:"], note="max duration: no retry after a failure handled once maxDuration elapsed; symbolic durations; P=1"))
PROPS["C02"]["thorough"].append(L2("ZZ_S13h_RetryDelay", 2, labels=["retry:"], note="max duration; P=2"))
_c18 = [J("failsafehttp", "ZZ_H18a_RetryableStatus", note="status code symbolic in [100,600) through the real RetryPolicyBuilder"),
        J("failsafehttp", "ZZ_H18b_RetryAfter", note="status symbolic x 9 Retry-After header shapes through the real DelayFunc"),
        J("failsafehttp", "ZZ_H18d_RetryAfterScheduled", note="500, then 429/503 with Retry-After n, then 200 through the real retry policy: scheduled wait >= n seconds, taken from the attempt that just failed"),
        J("failsafehttp", "ZZ_H18e_DoRequest", preempt=0, race=True, labels=["http:", "http-body:"], note="doRequest (core of RoundTripper and Request) over a stub transport: 0-2 retryable responses then 200; body kinds nil/*bytes.Buffer/*bytes.Reader/ReadSeeker/plain Reader with <=2 symbolic bytes; caller ctx background/with value/cancellable; executor with or without its own context"),
        J("failsafehttp", "ZZ_H18g_HedgedBody", solver=INT, preempt=1, race=True, labels=["http:"], note="doRequest under a hedge policy (delay symbolic): two attempts read their 3-byte symbolic bodies interleaved; body kinds *bytes.Buffer/*bytes.Reader/plain Reader/ReadSeeker; P=1"),
        J("failsafegrpc", "ZZ_H18f_GrpcInterceptors", preempt=0, race=True, labels=["grpc:"], note="unary client and server interceptors with stub invoker/handler: 17 status codes + a non-status error on the first attempt, adapter retry policy (max 1 retry), executor with or without its own context; real grpc/status and grpc/codes interpreted"),
        J("internal/util", "ZZ_H18c_MergeContexts", preempt=1, race=True, labels=["adapter-ctx:"], note="caller ctx in {Background,TODO,cancellable,with value,with deadline(symbolic)} x execution ctx in {Background, cancellable}; who ends first; P=1")]
_c18t = _c18[:-1] + [J("internal/util", "ZZ_H18c_MergeContexts", preempt=3, race=True, labels=["adapter-ctx:"], note="P=3")]
PROPS["C18"] = {"quick": _c18, "thorough": _c18t,
                "level_note": "PARTIAL: the adapter logic is decided over a stub transport / stub invoker (retryable-status predicate, Retry-After arithmetic, doRequest: per-attempt method/URL/headers/body for every supported body kind, returned response and its body, per-attempt context merging; gRPC interceptors pass-through and retryable codes with the real grpc/status package). Everything that needs a real transport, server or gRPC stack is not applicable to solver-based checking here and is listed under not_applicable.",
                "assumptions": ["error-message based classification (regexp on url.Error text, x509) is not encoded",
                                "the stub transport's response body follows net/http's documented contract: reads fail once the context of the request that produced it is done",
                                "request bodies of at most 2 (symbolic) bytes; caller context background / with value / cancellable"]}
PROPS["C19"]["quick"] = PROPS["C19"]["quick"] + [J("internal/util", "ZZ_H18c_MergeContexts", preempt=1, race=True, labels=["leak:"], note="context merger goroutine after the attempt returned"),
                                                 J("failsafehttp", "ZZ_H18e_DoRequest", preempt=0, race=True, labels=["http-close:"], note="doRequest over a stub transport, 0-2 retried responses then 200: every response obtained but not returned is closed, the returned one is not")]
PROPS["C19"]["thorough"] = [dict(j, preempt=j.get("tp", 2), time_limit_s=9000, note=(j.get("note", "") + "; P=%d" % j.get("tp", 2))) for j in PROPS["C19"]["quick"]]
PROPS["C19"]["level_note"] = "PARTIAL: core library goroutines/timers, the HTTP/gRPC context merger and (over a stub transport) closing of responses that are obtained but not returned are decided; release of pooled connections by net/http.Transport is not applicable (listed under not_applicable)."

DEFAULT_LEVEL_TEXT = ("Bounded symbolic model checking of the real code: the property's harness is executed symbolically from /repo's current "
                      "go/ssa; every feasible path within the stated bounds is explored and each assertion is discharged by an SMT solver for all "
                      "inputs/instants/schedules on that path. Holds 'for every value within the bound', says nothing outside it.")
DEFAULT_LEVEL_NOTE = ("Trusted: the symgo interpreter and its environment stubs (clock, timers, mutex/atomics, contexts, errors.Is, reflect), the SMT solvers, "
                      "go/ssa. Bounds (sizes, script lengths, goroutines, preemptions, config grids) are listed per harness in the evidence; paths cut by a bound are counted.")

# Properties not (yet) claimed. Kept current as checks land.
NOT_APPLICABLE = {
    "C18": "clauses that need a real transport, server or gRPC stack (requests as actually received by a server over a connection, streamed bodies, redirects, TLS/x509 and error-message based error classification, gRPC wire metadata) depend on net/http, net, gRPC and the kernel: code behind I/O cannot be encoded for the solver. Claimed instead (see the C18 check): the adapter logic itself over a stub transport obeying net/http's documented request-context contract - doRequest (method/URL/headers/complete body per attempt for all supported body kinds, retryable statuses, Retry-After, returned response = last attempt's, body readable to the end), per-attempt context merging, and the gRPC interceptors with stub invoker/handler and the real grpc/status package.",
    "C19": "release of pooled connections by net/http.Transport once a response body is closed is transport behaviour behind I/O; not encodable. Claimed (see the C19 check): goroutine/timer quiescence for the core library and the context merger, and - over a stub transport - that every response the HTTP adapter obtains but does not return is closed.",
}
for _p in ["C%02d" % i for i in range(1, 20)]:
    if _p not in PROPS:
        NOT_APPLICABLE[_p] = "no check registered yet in this revision (harness under construction); not claimed"

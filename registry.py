"""Property → harness jobs (bounds per tier). See DESIGN.md §8 for what each harness asserts."""
MOD = "github.com/failsafe-go/failsafe-go"

SOLVER_VERSIONS = {"z3": "4.8.12", "z3-new": "5.1.0", "cvc5": "1.0.x (--solve-bv-as-int=sum for time arithmetic, --fp-exp for FP)"}

TRUSTED_BASE = [
    "symgo SSA interpreter (engine/*.go): value/heap model, instruction semantics, decision-vector DFS",
    "SMT solvers z3 / cvc5 (sequential portfolio; unknown/timeout = inconclusive, never success)",
    "environment stubs: time.Now/Since/NewTimer/AfterFunc/Sleep (virtual non-decreasing clock), sync.Mutex, sync/atomic, context.*, errors.Is/As, reflect.DeepEqual/TypeOf, math.Round, math/rand.Float32/64 (arbitrary value in [0,1)), fmt.* (opaque strings), channels/select/go (engine-native)",
    "go/packages + go/ssa (x/tools v0.29.0) translation of /repo's current source",
]

COMMON_ASSUMPTIONS = [
    "virtual clock is non-decreasing and stays below 2^47 ns",
    "results are explored within the bounds listed under coverage.bounds; anything outside them is not claimed",
]


def J(pkg, fn, **kw):
    d = {"entry": "%s/%s.%s" % (MOD, pkg, fn) if pkg else "%s.%s" % (MOD, fn), "solver": "z3", "qtimeout_s": 60, "time_limit_s": 600}
    d.update(kw)
    return d


INT = "cvc5int,z3"   # time arithmetic (div/rem/mul by constants)
FPS = "cvc5,z3"      # floating point

PROPS = {}

PROPS["C05"] = {
    "quick": [
        J("ratelimiter", "ZZ_H05a_SmoothStep", solver=INT, native=True, note="inductive step from arbitrary valid state; intervals {1,3,7ns,1us,1ms,333333333ns,1s}; k<=1024; t<2^47; N<2^50"),
        J("ratelimiter", "ZZ_H05b_BurstyStep", solver=INT, native=True, params={"bursty_cfgs": 5},
          note="inductive step from arbitrary valid state; (M,P) in {(1,1s),(2,1s),(2,50ms),(4,1s),(8,7ns)}; deficit>=-2^20; k<=1024; t<2^47"),
        J("ratelimiter", "ZZ_H05c_KAtOnce", solver=INT, native=True, params={"bursty_cfgs": 3, "smooth_cfgs": 3}, note="k<=4 at once vs k singles at the same instant"),
    ],
    "assumptions": ["requested permits k >= 1", "stopwatch non-decreasing", "interval/period taken from the stated grid; bursty maxExecutions is a power of two (division of a symbolic deficit by 3, 5, 10 or 100 is not decided by any installed solver within 60 s)"],
}
PROPS["C05"]["thorough"] = PROPS["C05"]["quick"]

DEFAULT_LEVEL_TEXT = ("Bounded symbolic model checking of the real code: the property's harness is executed symbolically from /repo's current "
                      "go/ssa; every feasible path within the stated bounds is explored and each assertion is discharged by an SMT solver for all "
                      "inputs/instants/schedules on that path. Holds 'for every value within the bound', says nothing outside it.")
DEFAULT_LEVEL_NOTE = ("Trusted: the symgo interpreter and its environment stubs (clock, timers, mutex/atomics, contexts, errors.Is, reflect), the SMT solvers, "
                      "go/ssa. Bounds (sizes, script lengths, goroutines, preemptions, config grids) are listed per harness in the evidence; paths cut by a bound are counted.")

# Properties not (yet) claimed. Kept current as checks land.
NOT_APPLICABLE = {}
for _p in ["C%02d" % i for i in range(1, 20)]:
    if _p not in PROPS:
        NOT_APPLICABLE[_p] = "no check registered yet in this revision (harness under construction); not claimed"

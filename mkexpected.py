#!/usr/bin/env python3
"""Records, from the evidence of clean runs, which assertion labels each harness reaches
(expected_labels.json). The check fails as INCONCLUSIVE if one of them is no longer reached
(vacuity guard: a harness that stops reaching its assertions would otherwise pass everything)."""
import json, glob, os
ROOT = os.path.dirname(os.path.abspath(__file__))
out = {}
p = os.path.join(ROOT, "expected_labels.json")
if os.path.exists(p):
    out = json.load(open(p))
for f in sorted(glob.glob(os.path.join(ROOT, "evidence", "*.json"))):
    ev = json.load(open(f))
    if ev.get("violations") or ev["coverage"].get("inconclusive"):
        continue
    per = {}
    for k, s in ev["coverage"]["assertions"].items():
        h, l = k.split(" :: ", 1)
        if s["reached"] > 0:
            per.setdefault(h, [])
            if l not in per[h]:
                per[h].append(l)
    out.setdefault(ev["property_id"], {})[ev["tier"]] = per
json.dump(out, open(p, "w"), indent=1, sort_keys=True)
print({k: list(v) for k, v in out.items()})

#!/bin/bash
# runs seed_verify for every delivered mutant, sequentially (they all use /repo)
cd /verif
declare -A EXTRA
EXTRA[C01-a]="C11"; EXTRA[C01-b]="C06 C04"; EXTRA[C16-a]="C07"; EXTRA[C15-a]="C08"; EXTRA[C17-b]="C18"; EXTRA[C16-b]="C06"; EXTRA[C10-b]="C07"; EXTRA[C07-b]="C08"
for p in "$@"; do
  for x in a b; do
    [ -f /tmp/mut/$p/out/mutant-$x.diff ] || continue
    echo "=== $p-$x $(date +%T)"
    ./tools/seed_verify.sh $p $x ${EXTRA[$p-$x]:-} 2>&1 | tail -12
  done
done
echo ALLDONE

#!/bin/bash
# seed_verify.sh <WID> <a|b> <PID> [extra property ids]: confirm a sub-agent's mutant independently, then run our checks on it.
# Everything happens in a scratch worktree of /repo (outside /repo and /verif), which is removed afterwards; /repo is never touched.
# 1. apply diff, build, full suite (minus examples) must pass, demo must fail; without the diff the demo must pass
# 2. run ./check <PID> quick (and extra ids) against the scratch tree (VERIF_REPO/VERIF_OUT), logs kept in seeded/<WID>-<x>/.
set -u
WID=$1; X=$2; PID=$3; shift 3; EXTRA="$@"
export GOFLAGS=-mod=mod GOPROXY=off GOSUMDB=off GOTOOLCHAIN=local
SRC=/tmp/mut/$WID/out
VW=/tmp/vw-$WID$X
VO=/tmp/vo-$WID$X
OUT=/verif/seeded/$WID-$X
mkdir -p $OUT
cp $SRC/mutant-$X.diff $OUT/patch.diff
cp $SRC/demo_${X}_test.go $OUT/ 2>/dev/null
cp $SRC/notes-$X.md $OUT/notes.md 2>/dev/null
LOG=$OUT/verify.log; : > $LOG
git -C /repo worktree remove --force $VW >/dev/null 2>&1; rm -rf $VW $VO
git -C /repo worktree add --detach $VW HEAD -q
place=$(head -1 $OUT/demo_${X}_test.go | sed 's#// place in: *##; s#[[:space:]]*$##; s#/$##')
[ -z "$place" ] && place=test
demo=$VW/$place/zzdemo_${X}_test.go
cp $OUT/demo_${X}_test.go $demo
cd $VW
names=$(grep -o '^func Test[A-Za-z0-9_]*' $demo | sed 's/func //' | paste -sd'|')
echo "== demo without mutant (must pass)" >> $LOG
timeout 600 go test -vet=off -count=1 -run "^($names)\$" ./$place/ > $OUT/demo_clean.log 2>&1; demo_clean=$?
git apply $OUT/patch.diff >> $LOG 2>&1; applied=$?
echo "== build with mutant" >> $LOG
go build ./... >> $LOG 2>&1; build=$?
echo "== demo with mutant (must fail)" >> $LOG
timeout 600 go test -vet=off -count=1 -run "^($names)\$" ./$place/ > $OUT/demo_mutant.log 2>&1; demo_mut=$?
rm -f $demo
echo "== full suite with mutant (must pass except examples)" >> $LOG
pk=$(go list ./... | grep -v /examples)
timeout 900 go test -vet=off -count=1 $pk > $OUT/suite_mutant.log 2>&1; suite=$?
if [ $suite -ne 0 ]; then   # timing-sensitive tests flake on a loaded machine: one more try, sequential packages
  grep -- '--- FAIL' $OUT/suite_mutant.log | head -5 >> $LOG
  timeout 1500 go test -vet=off -count=1 -p 2 $pk > $OUT/suite_mutant.log 2>&1; suite=$?
fi
cd /verif
echo "applied=$applied build=$build demo_clean=$demo_clean demo_mutant=$demo_mut suite=$suite" | tee -a $LOG
if [ $applied -eq 0 ] && [ $build -eq 0 ] && [ $demo_clean -eq 0 ] && [ $demo_mut -ne 0 ] && [ $suite -eq 0 ]; then
  for p in $PID $EXTRA; do
    VERIF_REPO=$VW VERIF_OUT=$VO timeout 1800 ./check $p quick > $OUT/check_$p.log 2>&1; rc=$?
    echo "check $p rc=$rc: $(grep -c '^VIOLATION' $OUT/check_$p.log) violations" | tee -a $LOG
    grep '^VIOLATION\|^INCONCLUSIVE\|^ENGINE\|^OK\|^KNOWN' $OUT/check_$p.log | sed "s#$VO#/verif#" | cut -c1-260 | head -8 | tee -a $LOG
  done
else
  echo "NOT CONFIRMED - mutant rejected" | tee -a $LOG
fi
git -C /repo worktree remove --force $VW >/dev/null 2>&1; rm -rf $VW $VO

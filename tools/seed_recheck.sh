#!/bin/bash
# seed_recheck.sh <seed-dir-name> <property ids...>: apply a kept seeded patch in a scratch worktree of /repo, run the given checks (quick)
# against it (VERIF_REPO/VERIF_OUT), remove the worktree. /repo itself is never touched.
cd /verif
export GOFLAGS=-mod=mod GOPROXY=off GOSUMDB=off GOTOOLCHAIN=local
S=$1; shift
P=/verif/seeded/$S/patch.diff
VW=/tmp/rw-$S; VO=/tmp/ro-$S
git -C /repo worktree remove --force $VW >/dev/null 2>&1; rm -rf $VW $VO
git -C /repo worktree add --detach $VW HEAD -q
git -C $VW apply $P 2>/dev/null || git -C $VW apply -3 $P 2>/dev/null || { echo "$S: patch does not apply"; git -C /repo worktree remove --force $VW; exit 1; }
( cd $VW && go build ./... ) || { echo "$S: does not build"; git -C /repo worktree remove --force $VW; exit 1; }
for p in "$@"; do
  VERIF_REPO=$VW VERIF_OUT=$VO timeout 1800 ./check $p quick > /verif/seeded/$S/recheck_$p.log 2>&1; rc=$?
  sed -i "s#$VO#/verif#g" /verif/seeded/$S/recheck_$p.log
  echo "$S check $p rc=$rc $(grep -c '^VIOLATION' /verif/seeded/$S/recheck_$p.log) violations; $(grep '^VIOLATION' /verif/seeded/$S/recheck_$p.log | head -2 | sed 's/.*# //' | tr '\n' '|' | cut -c1-220)"
  grep '^INCONCLUSIVE\|^ENGINE' /verif/seeded/$S/recheck_$p.log | head -2 | cut -c1-200
done
git -C /repo worktree remove --force $VW >/dev/null 2>&1; rm -rf $VW $VO

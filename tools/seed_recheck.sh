#!/bin/bash
# seed_recheck.sh <seed-dir-name> <property ids...>: apply a kept seeded patch to /repo, run the given checks (quick), undo.
cd /verif
S=$1; shift
P=/verif/seeded/$S/patch.diff
git -C /repo status --short | grep -q . && { echo "/repo not clean"; exit 1; }
git -C /repo apply $P 2>/dev/null || git -C /repo apply -3 $P 2>/dev/null || { echo "$S: patch does not apply"; git -C /repo reset -q --hard HEAD; exit 1; }
( cd /repo && GOFLAGS=-mod=mod GOPROXY=off go build ./... ) || { echo "$S: does not build"; git -C /repo checkout -- .; exit 1; }
for p in "$@"; do
  timeout 1500 ./check $p quick > /verif/seeded/$S/recheck_$p.log 2>&1; rc=$?
  echo "$S check $p rc=$rc $(grep -c '^VIOLATION' /verif/seeded/$S/recheck_$p.log) violations; $(grep '^VIOLATION' /verif/seeded/$S/recheck_$p.log | head -2 | sed 's/.*# //' | tr '\n' '|' | cut -c1-220)"
  grep '^INCONCLUSIVE\|^ENGINE' /verif/seeded/$S/recheck_$p.log | head -2 | cut -c1-200
done
git -C /repo reset -q --hard HEAD
git -C /repo status --short | head -2

#!/bin/bash
cd /verif
run() { echo "=== $1 $(date +%T)"; ./tools/seed_recheck.sh "$@" 2>&1 | tail -8; }
run C16-b C16 C06; run C17-a C17; run C17-b C17 C18
echo RECHECKDONE

#!/usr/bin/env python3
"""Writes seeded/<id>/meta.json from verify.log, notes.md and the (re)check logs."""
import json, os, re, glob, sys
ROOT = "/verif/seeded"
# seeds whose description had been read, and a harness extended in response, before their first run against the checks
# (so "first_run_detected_by" is not a "before" detection; see DESIGN 13.7)
EXTENDED_BEFORE_FIRST_RUN = {"T01-a": "completion-listener subsets in the composition harness", "T16-a": "ZZ_S02e_NestedMaxDuration",
                             "U09-a": "per-round hedge delay assertion in ZZ_S09b", "U08-a": "context-deadline source in ZZ_S08b"}
summary = []
for d in sorted(glob.glob(ROOT + "/*-*")):
    name = os.path.basename(d)
    pid = name.split("-")[0]
    pid = "C" + pid[1:]
    v = open(os.path.join(d, "verify.log")).read() if os.path.exists(os.path.join(d, "verify.log")) else ""
    m = re.search(r"applied=(\d+) build=(\d+) demo_clean=(\d+) demo_mutant=(\d+) suite=(\d+)", v)
    conf = None
    if m:
        a, b, dc, dm, s = map(int, m.groups())
        conf = {"patch_applies": a == 0, "builds": b == 0, "demo_passes_without_patch": dc == 0, "demo_fails_with_patch": dm != 0,
                "existing_suite_passes_with_patch": s == 0}
    confirmed = bool(conf) and all(conf.values())
    notes = open(os.path.join(d, "notes.md")).read() if os.path.exists(os.path.join(d, "notes.md")) else ""
    det = {}
    for lf in sorted(glob.glob(d + "/recheck_*.log")) or sorted(glob.glob(d + "/check_*.log")):
        p = re.search(r"(?:re)?check_(C\d+)\.log", lf).group(1)
        txt = open(lf).read()
        viols = [re.sub(r".*# ", "", l) for l in txt.splitlines() if l.startswith("VIOLATION")]
        det[p] = {"violations": viols[:6], "detected": bool(viols),
                  "inconclusive": [l for l in txt.splitlines() if l.startswith("INCONCLUSIVE") or l.startswith("ENGINE")][:3]}
    first = []
    for lf in sorted(glob.glob(d + "/check_*.log")):
        p = re.search(r"check_(C\d+)\.log", lf).group(1)
        if any(l.startswith("VIOLATION") for l in open(lf)):
            first.append(p)
    files = re.findall(r"^\+\+\+ b/(\S+)", open(os.path.join(d, "patch.diff")).read(), re.M)
    meta = {"seed": name, "property": pid, "files_changed": files,
            "what_it_breaks_and_needs": notes.strip()[:1800],
            "independent_confirmation": conf, "confirmed": confirmed,
            "ran": ["tools/seed_verify.sh %s %s  (scratch worktree: demo without patch, apply, build, demo with patch, full suite minus examples)" % (pid, name.split("-")[1]),
                    "tools/seed_recheck.sh %s <properties>  (git -C /repo apply; ./check <id> quick; git -C /repo reset --hard)" % name],
            "first_run_detected_by": first, "harness_extended_before_first_run": EXTENDED_BEFORE_FIRST_RUN.get(name), "checks": det, "detected_by": sorted(p for p, x in det.items() if x["detected"])}
    json.dump(meta, open(os.path.join(d, "meta.json"), "w"), indent=1)
    summary.append((name, confirmed, meta["detected_by"]))
for s in summary:
    print("%-8s confirmed=%-5s detected_by=%s" % s)

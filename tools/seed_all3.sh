#!/bin/bash
# third batch: usage seed_all3.sh <WID> <PID> [extra...] — verifies both mutants of one sub-agent sequentially
cd /verif
W=$1; shift
for x in a b; do
  [ -f /tmp/mut/$W/out/mutant-$x.diff ] || { echo "=== $W-$x missing"; continue; }
  echo "=== $W-$x $(date +%T)"; ./tools/seed_verify.sh $W $x "$@" 2>&1 | tail -14
done

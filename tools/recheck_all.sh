#!/bin/bash
cd /verif
run() { echo "=== $1 $(date +%T)"; ./tools/seed_recheck.sh "$@" 2>&1 | tail -8; }
run R03-a C03; run R03-b C03; run R05-a C05; run R05-b C05; run R08-a C08 C15; run R08-b C08; run R09-a C09; run R09-b C09; run R15-a C15 C08; run R15-b C15
run C14-a C14; run C14-b C14 C04 C03; run C18-a C18; run C18-b C18; run C19-a C19; run C19-b C19
run C01-a C01 C11; run C01-b C01 C06 C04; run C02-a C02; run C02-b C02; run C03-a C03; run C03-b C03 C04
run C04-a C04 C03; run C04-b C04; run C05-a C05; run C05-b C05; run C06-a C06; run C06-b C06
run C07-a C07 C16; run C07-b C07; run C08-a C08; run C08-b C08; run C09-a C09; run C09-b C09
run C10-a C10; run C10-b C10 C07; run C11-a C11; run C11-b C11 C01; run C12-a C12; run C12-b C12
run C13-a C13; run C13-b C13; run C15-a C15 C08; run C15-b C15; run C16-a C16 C07; run C16-b C16
run C17-a C17; run C17-b C17 C18
echo RECHECKDONE

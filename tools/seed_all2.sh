#!/bin/bash
cd /verif
run() { echo "=== $1-$2 $(date +%T)"; ./tools/seed_verify.sh "$@" 2>&1 | tail -12; }
for x in a b; do run R05 $x C05; done
for x in a b; do run R03 $x C03; done
for x in a b; do run R08 $x C08 C15; done
for x in a b; do run R09 $x C09; done
for x in a b; do run R15 $x C15 C08; done
run C14 a C14 C07; run C14 b C14 C04 C03
run C18 a C18; run C18 b C18
run C19 a C19 C08; run C19 b C19 C18
echo ALLDONE

#!/bin/bash
# re-run only the "suite passes with the patch" step for a seed whose first confirmation hit a flaky test
S=$1; VW=/tmp/vw-re-$S
export GOFLAGS=-mod=mod GOPROXY=off GOSUMDB=off
git -C /repo worktree remove --force $VW >/dev/null 2>&1; rm -rf $VW
git -C /repo worktree add --detach $VW HEAD -q
cd $VW && (git apply /verif/seeded/$S/patch.diff || git apply -3 /verif/seeded/$S/patch.diff) && ok=0
for i in 1 2; do timeout 900 go test -vet=off -count=1 $(go list ./... | grep -v /examples) > /verif/seeded/$S/suite_mutant_rerun$i.log 2>&1 || ok=1; done
cd /verif; git -C /repo worktree remove --force $VW >/dev/null 2>&1; rm -rf $VW
echo "$S suite rerun x2 rc=$ok"
[ $ok -eq 0 ] && sed -i 's/suite=1/suite=0 (after re-running the suite twice on an idle machine; the first run hit an unrelated flaky timing test)/' /verif/seeded/$S/verify.log

//go:build verif

package retrypolicy

import (
	"context"
	"github.com/failsafe-go/failsafe-go"
	"time"

	"github.com/failsafe-go/failsafe-go/internal/util"
	"github.com/failsafe-go/failsafe-go/internal/zzvrt"
	"github.com/failsafe-go/failsafe-go/policy"
)

// zzExec is a stub ExecutionAttempt: getDelay only looks at Retries and ElapsedTime.
type zzExec struct {
	retries int
	elapsed time.Duration
}

func (e *zzExec) Context() context.Context          { return context.Background() }
func (e *zzExec) Attempts() int                     { return e.retries + 1 }
func (e *zzExec) Executions() int                   { return e.retries }
func (e *zzExec) Retries() int                      { return e.retries }
func (e *zzExec) Hedges() int                       { return 0 }
func (e *zzExec) StartTime() time.Time              { return time.Time{} }
func (e *zzExec) ElapsedTime() time.Duration        { return e.elapsed }
func (e *zzExec) LastResult() int                   { return 0 }
func (e *zzExec) LastError() error                  { return nil }
func (e *zzExec) IsFirstAttempt() bool              { return e.retries == 0 }
func (e *zzExec) IsRetry() bool                     { return e.retries > 0 }
func (e *zzExec) IsHedge() bool                     { return false }
func (e *zzExec) AttemptStartTime() time.Time       { return time.Time{} }
func (e *zzExec) ElapsedAttemptTime() time.Duration { return 0 }

// magnitudes from microseconds to hours, including values not exactly representable in float32/float64 mantissas
var zzMagnitudes = []time.Duration{1000, 999000, 1000000, 10000000, 1000000000, 59000000001, 60000000000, 3600000000000,
	1 << 24, 1<<24 + 1, 1 << 31, 1<<31 - 1, 1 << 40, 1<<40 + 1}

func zzMag(name string) time.Duration {
	return zzMagnitudes[zzvrt.Param("mag_base", 0)+zzvrt.Choose(name, zzvrt.Param("mags", len(zzMagnitudes)))]
}

func zzRand64() float64 {
	r := zzvrt.Float64("random")
	zzvrt.Assume(r >= 0)
	zzvrt.Assume(r < 1)
	return r
}

// H13a: jitter duration: delay shifted by at most the jitter, for every random draw and every delay.
func ZZ_H13a_Jitter() {
	J := zzMag("jitter")
	delay := zzvrt.Duration("delay")
	zzvrt.Assume(delay >= 0)
	zzvrt.Assume(delay < 1<<47)
	got := util.RandomDelay(delay, J, zzRand64())
	zzvrt.Observe("got", got)
	zzvrt.Assert(got >= delay-J, "delay: jitter shifts the delay down by at most the jitter")
	zzvrt.Assert(got <= delay+J, "delay: jitter shifts the delay up by at most the jitter")
}

// H13c: random delay within [delayMin, delayMax].
func ZZ_H13c_RandomRange() {
	lo := zzMag("min")
	hi := zzMag("max")
	zzvrt.Assume(lo <= hi)
	got := util.RandomDelayInRange(lo.Nanoseconds(), hi.Nanoseconds(), zzRand64())
	zzvrt.Observe("got", got)
	zzvrt.Assert(got >= lo.Nanoseconds(), "delay: random delay not below delayMin")
	zzvrt.Assert(got <= hi.Nanoseconds(), "delay: random delay not above delayMax")
}

var zzFactors = []float32{0.1, 0.25, 0.5, 1}

// H13b: jitter factor: delay shifted by at most factor*delay (up to float32 rounding of the delay, 2^-22 relative).
func ZZ_H13b_JitterFactor() {
	delay := zzMag("delay")
	f := zzFactors[zzvrt.Choose("factor", len(zzFactors))]
	r := zzvrt.Float32("random")
	zzvrt.Assume(r >= 0)
	zzvrt.Assume(r < 1)
	got := util.RandomDelayFactor(delay, f, r)
	zzvrt.Observe("got", got)
	tol := delay>>22 + 1
	span := time.Duration(float64(delay) * float64(f))
	zzvrt.Assert(got >= delay-span-tol, "delay: jitter factor shifts the delay down by at most factor*delay")
	zzvrt.Assert(got <= delay+span+tol, "delay: jitter factor shifts the delay up by at most factor*delay")
	zzvrt.Assert(got >= 0, "delay: non-negative")
}

var zzBackoffFactors = []float32{1.5, 2, 3, 10}

// H13d: one backoff step from an arbitrary previous delay: never decreases, never exceeds maxDelay,
// equals last*factor up to float32 rounding.
func ZZ_H13d_BackoffStep() {
	factor := zzBackoffFactors[zzvrt.Choose("factor", len(zzBackoffFactors))]
	maxDelay := zzvrt.Duration("maxDelay")
	zzvrt.Assume(maxDelay >= 1)
	zzvrt.Assume(maxDelay < 1<<47)
	last := zzvrt.Duration("lastDelay")
	zzvrt.Assume(last >= 1)
	zzvrt.Assume(last <= maxDelay)
	e := &executor[int]{retryPolicy: &retryPolicy[int]{config: &config[int]{
		BaseDelayablePolicy: &policy.BaseDelayablePolicy[int]{Delay: 1},
		BaseAbortablePolicy: &policy.BaseAbortablePolicy[int]{},
		maxDelay:            maxDelay, delayFactor: factor}}, lastDelay: last}
	got := e.getFixedOrRandomDelay(&zzExec{retries: 1})
	zzvrt.Observe("got", got)
	zzvrt.Assert(got <= maxDelay, "delay: backoff never exceeds maxDelay")
	zzvrt.Assert(got >= last-(last>>22)-1, "delay: backoff never decreases (up to float32 rounding)")
	zzvrt.Assert(e.lastDelay == got, "delay: lastDelay tracks the un-jittered backoff delay")
	// exact product where it is below maxDelay (tolerance 2^-22 relative)
	exact := time.Duration(float64(last) * float64(factor))
	if exact <= maxDelay-(maxDelay>>21)-2 {
		zzvrt.Assert(got >= exact-(exact>>21)-2, "delay: backoff equals last*factor up to float32 rounding (low)")
		zzvrt.Assert(got <= exact+(exact>>21)+2, "delay: backoff equals last*factor up to float32 rounding (high)")
	}
}

// H13e: max-duration clamp: never negative, never past the remaining max duration.
func ZZ_H13e_Clamp() {
	maxDuration := zzvrt.Duration("maxDuration")
	zzvrt.Assume(maxDuration >= 0)
	zzvrt.Assume(maxDuration < 1<<47)
	elapsed := zzvrt.Duration("elapsed")
	zzvrt.Assume(elapsed >= 0)
	zzvrt.Assume(elapsed < 1<<47)
	delay := zzvrt.Duration("delay")
	zzvrt.Assume(delay > -(1 << 47))
	zzvrt.Assume(delay < 1<<47)
	e := &executor[int]{retryPolicy: &retryPolicy[int]{config: &config[int]{maxDuration: maxDuration}}}
	got := e.adjustForMaxDuration(delay, elapsed)
	zzvrt.Assert(got >= 0, "delay: non-negative")
	if maxDuration != 0 {
		if elapsed <= maxDuration {
			zzvrt.Assert(got <= maxDuration-elapsed, "delay: never extends past the remaining max duration")
		} else {
			zzvrt.Assert(got == 0, "delay: zero once the max duration has elapsed")
		}
	} else if delay >= 0 {
		zzvrt.Assert(got == delay, "delay: unchanged without a max duration")
	}
}

// H13g: three consecutive getDelay calls of a backoff+jitter policy: jitter never accumulates into
// later backoff delays, each scheduled delay is within the jitter of the un-jittered sequence.
func ZZ_H13g_Sequence() {
	base := zzMag("delay")
	factor := zzBackoffFactors[zzvrt.Choose("factor", 2)]
	maxDelay := base * 8
	J := base / 4
	useFactor := zzvrt.Choose("jitter-kind", 2) == 1
	cfg := &config[int]{
		BaseDelayablePolicy: &policy.BaseDelayablePolicy[int]{Delay: base},
		BaseAbortablePolicy: &policy.BaseAbortablePolicy[int]{},
		maxDelay:            maxDelay, delayFactor: factor}
	if useFactor {
		cfg.jitterFactor = 0.25
	} else {
		cfg.jitter = J
	}
	e := &executor[int]{retryPolicy: &retryPolicy[int]{config: cfg}}
	want := base
	for k := 0; k < 3; k++ {
		got := e.getDelay(&zzExec{retries: k})
		if k > 0 {
			want = time.Duration(float32(want) * factor)
			if want > maxDelay {
				want = maxDelay
			}
		}
		zzvrt.Assert(e.lastDelay == want, "delay: jitter never accumulates into later backoff delays")
		if useFactor {
			tol := want>>22 + 1
			zzvrt.Assert(got >= want-want/4-tol, "delay: scheduled delay within the jitter factor of the backoff sequence (low)")
			zzvrt.Assert(got <= want+want/4+tol, "delay: scheduled delay within the jitter factor of the backoff sequence (high)")
		} else {
			zzvrt.Assert(got >= want-J, "delay: scheduled delay within the jitter of the backoff sequence (low)")
			zzvrt.Assert(got <= want+J, "delay: scheduled delay within the jitter of the backoff sequence (high)")
		}
		zzvrt.Assert(got >= 0, "delay: non-negative")
	}
}

// H13f: the delay function's value is used when it returns one, else the fixed delay.
func ZZ_H13f_DelayFunc() {
	dv := zzvrt.Duration("delayFuncValue")
	zzvrt.Assume(dv >= -1)
	zzvrt.Assume(dv < 1<<47)
	fixed := zzMag("fixed")
	cfg := &config[int]{
		BaseDelayablePolicy: &policy.BaseDelayablePolicy[int]{Delay: fixed},
		BaseAbortablePolicy: &policy.BaseAbortablePolicy[int]{}}
	cfg.DelayFunc = func(exec failsafe.ExecutionAttempt[int]) time.Duration { return dv }
	e := &executor[int]{retryPolicy: &retryPolicy[int]{config: cfg}}
	got := e.getDelay(&zzExec{retries: 0})
	if dv == -1 {
		zzvrt.Assert(got == fixed, "delay: fixed delay when the delay function returns -1")
	} else {
		zzvrt.Assert(got == dv, "delay: the delay function's value when it returns one")
	}
}

// H13i: the whole getDelay of a policy configured through the public builder (including builder calls that
// replace an earlier delay configuration), combined with jitter and a max duration: the scheduled delay is
// non-negative, never extends past the remaining max duration, and — when the max duration does not cut it — lies
// within the configured envelope shifted by at most the jitter. Two consecutive retries for backoff configurations.
func ZZ_H13i_BuilderEnvelope() {
	base := zzMag("delay")
	b := Builder[int]()
	kind := zzvrt.Choose("delay-kind", 6)
	var lo, hi [2]time.Duration // un-jittered envelope of the first and the second scheduled delay
	random := false
	switch kind {
	case 0:
		b.WithDelay(base)
		lo, hi = [2]time.Duration{base, base}, [2]time.Duration{base, base}
	case 1:
		b.WithBackoff(base, base*8)
		lo, hi = [2]time.Duration{base, base * 2}, [2]time.Duration{base, base * 2}
	case 2:
		b.WithRandomDelay(base, base*2)
		lo, hi = [2]time.Duration{base, base}, [2]time.Duration{base * 2, base * 2}
		random = true
	case 3: // a random delay configured after a backoff replaces it
		b.WithBackoff(base/2+1, base).WithRandomDelay(base*2, base*4)
		lo, hi = [2]time.Duration{base * 2, base * 2}, [2]time.Duration{base * 4, base * 4}
		random = true
	case 4: // a backoff configured after a random delay replaces it
		b.WithRandomDelay(base, base*2).WithBackoff(base*4, base*16)
		lo, hi = [2]time.Duration{base * 4, base * 8}, [2]time.Duration{base * 4, base * 8}
	case 5: // delay function value, falling back to the fixed delay
		dv := zzvrt.Duration("delayFuncValue")
		zzvrt.Assume(dv >= -1)
		zzvrt.Assume(dv < 1<<40)
		b.WithDelay(base).WithDelayFunc(func(exec failsafe.ExecutionAttempt[int]) time.Duration { return dv })
		if dv == -1 {
			lo, hi = [2]time.Duration{base, base}, [2]time.Duration{base, base}
		} else {
			lo, hi = [2]time.Duration{dv, dv}, [2]time.Duration{dv, dv}
		}
		random = true // symbolic delay: only the duration jitter is decidable
	}
	J := time.Duration(0)
	jf := false
	nj := 3
	if random {
		nj = 2
	}
	switch zzvrt.Choose("jitter-kind", nj) {
	case 1:
		J = base / 4
		b.WithJitter(J)
	case 2:
		jf = true
		b.WithJitterFactor(0.25)
	}
	md := time.Duration(0)
	if zzvrt.Choose("max-duration", 2) == 1 {
		md = zzvrt.Duration("maxDuration")
		zzvrt.Assume(md >= 1)
		zzvrt.Assume(md < 1<<47)
		b.WithMaxDuration(md)
	}
	e := b.Build().ToExecutor(0).(*executor[int])
	rounds := 1
	if kind == 1 || kind == 4 {
		rounds = 2 // backoff: the second delay differs from the first
	}
	for k := 0; k < rounds; k++ {
		elapsed := zzvrt.Duration("elapsed")
		zzvrt.Assume(elapsed >= 0)
		zzvrt.Assume(elapsed < 1<<47)
		got := e.getDelay(&zzExec{retries: k, elapsed: elapsed})
		zzvrt.Observe("got", got)
		zzvrt.Assert(got >= 0, "delay: non-negative")
		jl, jh := J, J
		if jf {
			jl = hi[k]/4 + hi[k]>>22 + 1
			jh = jl
		}
		if k == 1 { // the backoff product is computed in float32: 2^-22 relative (stated tolerance)
			jl += hi[k]>>22 + 1
			jh += hi[k]>>22 + 1
		}
		if md != 0 {
			if elapsed <= md {
				zzvrt.Assert(got <= md-elapsed, "delay: never extends past the remaining max duration")
			} else {
				zzvrt.Assert(got == 0, "delay: zero once the max duration has elapsed")
			}
			if elapsed <= md {
				if hi[k]+jh <= md-elapsed { // not cut by the max duration
					zzvrt.Assert(got >= lo[k]-jl, "delay: within the configured envelope shifted by at most the jitter (low)")
					zzvrt.Assert(got <= hi[k]+jh, "delay: within the configured envelope shifted by at most the jitter (high)")
				}
			}
		} else {
			zzvrt.Assert(got >= lo[k]-jl, "delay: within the configured envelope shifted by at most the jitter (low)")
			zzvrt.Assert(got <= hi[k]+jh, "delay: within the configured envelope shifted by at most the jitter (high)")
		}
	}
	zzvrt.Reach("builder-envelope-done")
}

//go:build verif

package policy

import (
	"errors"
	"fmt"

	"github.com/failsafe-go/failsafe-go/internal/zzvrt"
)

type zzValErr struct{}

func (zzValErr) Error() string { return "val" }

type zzPtrErr struct{ n int }

func (*zzPtrErr) Error() string { return "ptr" }

type zzWrap struct{ err error }

func (w zzWrap) Error() string { return "wrap" }
func (w zzWrap) Unwrap() error { return w.err }

var zzErrA = errors.New("a")
var zzErrB = errors.New("b")
var zzErrC = errors.New("c") // never part of an outcome: extra target of the variadic registrations

type zzOtherErr struct{ x int } // never part of an outcome

func (zzOtherErr) Error() string { return "other" }

// zzErrCase is one error shape with the documented answers of the three matchers.
type zzErrCase struct {
	err     error
	isA     bool // errors.Is(err, zzErrA)
	typeVal bool // type zzValErr occurs in the chain/tree
	typePtr bool // type *zzPtrErr occurs in the chain/tree
}

func zzErrCatalogue() []zzErrCase {
	return []zzErrCase{
		{nil, false, false, false},
		{zzErrA, true, false, false},
		{zzErrB, false, false, false},
		{fmt.Errorf("ctx: %w", zzErrA), true, false, false},
		{zzWrap{fmt.Errorf("ctx: %w", zzErrA)}, true, false, false},
		{zzValErr{}, false, true, false},
		{&zzPtrErr{}, false, false, true},
		{errors.Join(zzErrA, nil), true, false, false},
		{zzWrap{zzValErr{}}, false, true, false},
		{errors.Join(zzErrB, &zzPtrErr{}), false, false, true},
		{errors.Join(zzErrB, zzWrap{zzErrA}), true, false, false},
		// three levels: a join below an ordinary wrap, a join below a join, a wrap below a join below a wrap
		{fmt.Errorf("ctx: %w", errors.Join(zzErrB, zzValErr{})), false, true, false},
		{zzWrap{errors.Join(zzErrB, &zzPtrErr{})}, false, false, true},
		{fmt.Errorf("ctx: %w", errors.Join(zzErrB, zzErrA)), true, false, false},
		{errors.Join(zzErrB, errors.Join(zzErrB, zzValErr{})), false, true, false},
		{zzWrap{errors.Join(zzErrB, zzWrap{&zzPtrErr{}})}, false, false, true},
	}
}

// H12a: IsFailure against the documented rule for every subset/order (<= n) of registrations.
func ZZ_H12a_IsFailure() {
	cat := zzErrCatalogue()
	ec := cat[zzvrt.Choose("err", len(cat))]
	result := zzvrt.Int("result")
	p := &BaseFailurePolicy[int]{}
	n := zzvrt.Choose("registrations", zzvrt.Param("max_regs", 3)+1)
	anyMatch := false
	errorCond := false
	for i := 0; i < n; i++ {
		switch zzvrt.Choose("kind", 6) {
		case 5:
			p.HandleErrorTypes(&zzValErr{}) // pointer target for a value-receiver error type (as with errors.As)
			errorCond = true
			if ec.typeVal {
				anyMatch = true
			}
		case 0:
			p.HandleErrors(zzErrA, zzErrC)
			errorCond = true
			if ec.isA {
				anyMatch = true
			}
		case 1:
			p.HandleErrorTypes(zzValErr{}, zzOtherErr{})
			errorCond = true
			if ec.typeVal {
				anyMatch = true
			}
		case 2:
			p.HandleErrorTypes(zzPtrErr{}) // non-pointer target for a pointer-receiver error type
			errorCond = true
			if ec.typePtr {
				anyMatch = true
			}
		case 3:
			hv := zzvrt.Int("handleResult")
			p.HandleResult(hv)
			// "only considered when a result is returned, not when an error is returned"
			if ec.err == nil {
				if result == hv {
					anyMatch = true
				}
			}
		case 4:
			pv := zzvrt.Int("handleIf")
			p.HandleIf(func(r int, err error) bool { return r == pv })
			errorCond = true
			if result == pv {
				anyMatch = true
			}
		}
	}
	want := false
	if n == 0 {
		want = ec.err != nil
	} else if anyMatch {
		want = true
	} else if ec.err != nil {
		if !errorCond {
			want = true // errors fail by default unless an error-handling condition was configured
		}
	}
	got := p.IsFailure(result, ec.err)
	zzvrt.Observe("got", got)
	zzvrt.Assert(got == want, "classification: IsFailure follows the documented handle-condition rule")
	zzvrt.Reach("isfailure-done")
}

// H12b: abort conditions: any match aborts; none configured never aborts.
func ZZ_H12b_IsAbortable() {
	cat := zzErrCatalogue()
	ec := cat[zzvrt.Choose("err", len(cat))]
	result := zzvrt.Int("result")
	p := &BaseAbortablePolicy[int]{}
	n := zzvrt.Choose("registrations", zzvrt.Param("max_regs", 3)+1)
	anyMatch := false
	undecided := false
	for i := 0; i < n; i++ {
		switch zzvrt.Choose("kind", 6) {
		case 5:
			p.AbortOnErrorTypes(&zzValErr{})
			if ec.typeVal {
				anyMatch = true
			}
		case 0:
			p.AbortOnErrors(zzErrA, zzErrC)
			if ec.isA {
				anyMatch = true
			}
		case 1:
			p.AbortOnErrorTypes(zzValErr{}, zzOtherErr{})
			if ec.typeVal {
				anyMatch = true
			}
		case 2:
			p.AbortOnErrorTypes(&zzPtrErr{})
			if ec.typePtr {
				anyMatch = true
			}
		case 3:
			hv := zzvrt.Int("abortResult")
			p.AbortOnResult(hv)
			if result == hv {
				if ec.err == nil {
					anyMatch = true
				} else {
					undecided = true // result match on an outcome that also carries an error: not specified
				}
			}
		case 4:
			pv := zzvrt.Int("abortIf")
			p.AbortIf(func(r int, err error) bool { return r == pv })
			if result == pv {
				anyMatch = true
			}
		}
	}
	got := p.IsAbortable(result, ec.err)
	zzvrt.Assert(p.IsConfigured() == (n > 0), "classification: IsConfigured iff an abort condition was registered")
	if n == 0 {
		zzvrt.Assert(!got, "classification: no abort conditions means never abort")
	} else if anyMatch {
		zzvrt.Assert(got, "classification: a matching abort condition aborts")
	} else if !undecided {
		zzvrt.Assert(!got, "classification: no matching abort condition means no abort")
	}
	zzvrt.Reach("isabortable-done")
}

type zzRes struct{ code int }
type zzBox struct {
	p    *int
	name string
}

// H12c: HandleResult / AbortOnResult match by *deep* equality whatever the result type is: pointers, structs holding
// pointers and slices are compared by what they point to, not by identity (a fresh but equal value matches).
func ZZ_H12c_ResultShapes() {
	hv := zzvrt.Int("handled")
	rv := zzvrt.Int("result")
	abort := zzvrt.Choose("abort", 2) == 1
	var got bool
	switch zzvrt.Choose("shape", 4) {
	case 0:
		if abort {
			p := &BaseAbortablePolicy[*zzRes]{}
			p.AbortOnResult(&zzRes{hv})
			got = p.IsAbortable(&zzRes{rv}, nil)
		} else {
			p := &BaseFailurePolicy[*zzRes]{}
			p.HandleResult(&zzRes{hv})
			got = p.IsFailure(&zzRes{rv}, nil)
			zzvrt.Assert(!p.IsFailure(nil, nil), "classification: a nil result does not equal a handled non-nil result")
		}
	case 1:
		a, b := hv, rv
		if abort {
			p := &BaseAbortablePolicy[zzBox]{}
			p.AbortOnResult(zzBox{&a, "x"})
			got = p.IsAbortable(zzBox{&b, "x"}, nil)
		} else {
			p := &BaseFailurePolicy[zzBox]{}
			p.HandleResult(zzBox{&a, "x"})
			got = p.IsFailure(zzBox{&b, "x"}, nil)
		}
	case 2:
		if abort {
			p := &BaseAbortablePolicy[[]int]{}
			p.AbortOnResult([]int{1, hv})
			got = p.IsAbortable([]int{1, rv}, nil)
		} else {
			p := &BaseFailurePolicy[[]int]{}
			p.HandleResult([]int{1, hv})
			got = p.IsFailure([]int{1, rv}, nil)
		}
	case 3:
		if abort {
			p := &BaseAbortablePolicy[zzRes]{}
			p.AbortOnResult(zzRes{hv})
			got = p.IsAbortable(zzRes{rv}, nil)
		} else {
			p := &BaseFailurePolicy[zzRes]{}
			p.HandleResult(zzRes{hv})
			got = p.IsFailure(zzRes{rv}, nil)
		}
	}
	zzvrt.Observe("got", got)
	zzvrt.Assert(got == (hv == rv), "classification: result conditions match by deep equality (pointer, pointer-holding struct, slice, struct results)")
	zzvrt.Reach("resultshapes-done")
}

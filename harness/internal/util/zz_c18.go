//go:build verif

package util

import (
	"context"
	"time"

	"github.com/failsafe-go/failsafe-go/internal/zzvrt"
)

type zzKey struct{}

// H18c: the context handed to each HTTP/gRPC attempt is MergeContexts(caller's ctx, execution's ctx).
// It must still carry the caller's values and deadline, be done exactly when either source is, and
// its helper goroutine must not outlive the attempt (C19).
func ZZ_H18c_MergeContexts() {
	kind1 := zzvrt.Choose("caller-ctx", 5)    // background, TODO, cancellable, with value, with deadline
	kind2 := zzvrt.Choose("execution-ctx", 2) // background (plain sync executor), cancellable child (Timeout / hedge / async / WithContext)
	var ctx1 context.Context = context.Background()
	cancel1 := func() {}
	dl := zzvrt.Int64("deadline-offset")
	zzvrt.Assume(dl >= 1)
	zzvrt.Assume(dl < 1<<40)
	switch kind1 {
	case 1:
		ctx1 = context.TODO()
	case 2:
		ctx1, cancel1 = context.WithCancel(context.Background())
	case 3:
		ctx1 = context.WithValue(context.Background(), zzKey{}, 42)
	case 4:
		ctx1, cancel1 = context.WithTimeout(context.Background(), time.Duration(dl))
	}
	var ctx2 context.Context = context.Background()
	cancel2 := func() {}
	if kind2 == 1 {
		ctx2, cancel2 = context.WithCancel(context.Background())
	}
	start := zzvrt.Now()
	merged, cancel := MergeContexts(ctx1, ctx2)

	zzvrt.Assert(merged.Err() == nil, "adapter-ctx: attempt context not done while both sources are live")
	zzvrt.Assert(merged.Value(zzKey{}) == ctx1.Value(zzKey{}), "adapter-ctx: attempt context carries the caller's context values")
	d1, ok1 := ctx1.Deadline()
	dm, okm := merged.Deadline()
	zzvrt.Assert(ok1 == okm, "adapter-ctx: attempt context carries the caller's deadline")
	if ok1 && okm {
		zzvrt.Assert(d1.Equal(dm), "adapter-ctx: attempt context carries the caller's deadline")
	}
	switch zzvrt.Choose("who-ends", 4) {
	case 0: // the caller's context ends
		if kind1 == 2 || kind1 == 4 {
			cancel1()
			zzvrt.Quiesce()
			zzvrt.Assert(merged.Err() != nil, "adapter-ctx: attempt context is done when the caller's context is")
		}
	case 1: // the execution is cancelled
		if kind2 == 1 {
			cancel2()
			zzvrt.Quiesce()
			zzvrt.Assert(merged.Err() != nil, "adapter-ctx: attempt context is done when the execution's context is")
		}
	case 2: // the caller's deadline passes
		if kind1 == 4 {
			zzvrt.Sleep(time.Duration(dl))
			zzvrt.Quiesce()
			zzvrt.Assert(zzvrt.Now()-start >= dl, "adapter-ctx: virtual time passed the deadline")
			zzvrt.Assert(merged.Err() != nil, "adapter-ctx: attempt context is done when the caller's deadline passes")
		}
	case 3: // the attempt simply returns
	}
	// the attempt returns: the adapter calls cancel(nil)
	cancel(nil)
	zzvrt.Quiesce()
	zzvrt.Assert(zzvrt.Live() == 0, "leak: the context merger's goroutine finishes once the attempt has returned")
	zzvrt.Assert(zzvrt.PendingCallbacks() == 0, "leak: the context merger detaches from the source contexts once the attempt has returned")
	cancel1()
	cancel2()
	zzvrt.Reach("merge-done")
}

//go:build verif

// Package zzvrt is the harness runtime. Under the symbolic engine (symgo) every function
// here is an intrinsic and these bodies are never executed. Compiled natively (replay), the
// nondeterministic inputs are read from the model file named by $ZZVRT_REPLAY and assertion
// outcomes / observations are printed so the driver can compare them with the engine's prediction.
package zzvrt

import (
	"encoding/json"
	"fmt"
	"os"
	"strconv"
	"strings"
	"sync"
	"time"
)

type replayFile struct {
	Values []struct {
		Name  string `json:"name"`
		Value string `json:"value"`
	} `json:"values"`
}

var (
	mu     sync.Mutex
	rf     replayFile
	next   int
	loaded bool
	ctrs   = map[string]int{}
	Failed []string
)

func load() {
	if loaded {
		return
	}
	loaded = true
	if p := os.Getenv("ZZVRT_REPLAY"); p != "" {
		b, err := os.ReadFile(p)
		if err != nil {
			panic(err)
		}
		if err := json.Unmarshal(b, &rf); err != nil {
			panic(err)
		}
	}
}

func pop(name string) string {
	mu.Lock()
	defer mu.Unlock()
	load()
	if next >= len(rf.Values) {
		fmt.Printf("REPLAY-DIVERGED: no value left for %q\n", name)
		os.Exit(3)
	}
	v := rf.Values[next]
	next++
	if v.Name != name {
		fmt.Printf("REPLAY-DIVERGED: expected input %q, harness asked for %q\n", v.Name, name)
		os.Exit(3)
	}
	return v.Value
}

func popInt(name string) int64 {
	s := pop(name)
	if s == "?" {
		return 0
	}
	v, err := strconv.ParseInt(s, 10, 64)
	if err != nil {
		u, err2 := strconv.ParseUint(s, 10, 64)
		if err2 != nil {
			panic(fmt.Sprintf("bad replay value %q for %s", s, name))
		}
		return int64(u)
	}
	return v
}

func Int64(name string) int64            { return popInt(name) }
func Int(name string) int                { return int(popInt(name)) }
func Uint(name string) uint              { return uint(popInt(name)) }
func Uint64(name string) uint64          { return uint64(popInt(name)) }
func Int32(name string) int32            { return int32(popInt(name)) }
func Uint32(name string) uint32          { return uint32(popInt(name)) }
func Byte(name string) byte              { return byte(popInt(name)) }
func Duration(name string) time.Duration { return time.Duration(popInt(name)) }
func Choose(name string, n int) int      { return int(popInt(name)) }
func Bool(name string) bool              { return pop(name) == "true" }
func Float64(name string) float64 {
	f, err := strconv.ParseFloat(pop(name), 64)
	if err != nil {
		panic(err)
	}
	return f
}
func Float32(name string) float32 { return float32(Float64(name)) }

// Param returns a concrete harness parameter (bounds per tier); natively $ZZ_PARAMS ("k=v,k=v") or the default.
func Param(name string, def int) int {
	for _, kv := range strings.Split(os.Getenv("ZZ_PARAMS"), ",") {
		if i := strings.Index(kv, "="); i > 0 && kv[:i] == name {
			if v, err := strconv.Atoi(kv[i+1:]); err == nil {
				return v
			}
		}
	}
	return def
}

// Symbolic reports whether the harness runs under the symbolic engine.
func Symbolic() bool { return false }

func Assume(c bool) {
	if !c {
		fmt.Println("ASSUME-FALSE")
		os.Exit(4)
	}
}
func Assert(c bool, label string) {
	if !c {
		mu.Lock()
		Failed = append(Failed, label)
		mu.Unlock()
		fmt.Printf("ASSERT-FAIL %s\n", label)
	} else {
		fmt.Printf("ASSERT-OK %s\n", label)
	}
}
func Fail(label string)  { Assert(false, label) }
func Reach(label string) { fmt.Printf("REACH %s\n", label) }
func Cut(reason string)  { fmt.Printf("CUT %s\n", reason); os.Exit(0) }
func Trace(s string)     {}
func Observe(name string, v any) {
	switch x := v.(type) {
	case time.Duration:
		fmt.Printf("OBSERVE %s %d\n", name, int64(x))
	case error:
		fmt.Printf("OBSERVE %s %v\n", name, x)
	default:
		fmt.Printf("OBSERVE %s %v\n", name, v)
	}
}

// Virtual time and scheduling: natively these map onto the real runtime and are only good
// enough for sequential harnesses (Layer-2 counterexamples are replayed inside the engine).
var t0 = time.Now()

func Sleep(d time.Duration) { time.Sleep(d) }
func Now() int64            { return int64(time.Since(t0)) + 1 }
func Yield()                {}
func Quiesce()              { time.Sleep(20 * time.Millisecond) }
func Live() int             { return 0 }
func LiveAll() int          { return 0 }
func ArmedTimers() int      { return 0 }
func PendingCallbacks() int { return 0 }

func CtrAdd(name string, d int) int {
	mu.Lock()
	defer mu.Unlock()
	ctrs[name] += d
	return ctrs[name]
}
func CtrGet(name string) int {
	mu.Lock()
	defer mu.Unlock()
	return ctrs[name]
}
func CtrSet(name string, v int) {
	mu.Lock()
	defer mu.Unlock()
	ctrs[name] = v
}

// CellSet/CellGet: race-free shared int64 cells for harness bookkeeping across goroutines
// (engine-native, may hold symbolic values; not tracked by the race detector).
var cells = map[string]int64{}

func CellSet(name string, v int64) {
	mu.Lock()
	defer mu.Unlock()
	cells[name] = v
}
func CellGet(name string) int64 {
	mu.Lock()
	defer mu.Unlock()
	return cells[name]
}

//go:build verif

package circuitbreaker

import (
	"errors"
	"time"

	"github.com/bits-and-blooms/bitset"

	"github.com/failsafe-go/failsafe-go/internal/zzvrt"
)

// zzClock is the virtual clock hook.
type zzClock struct{ t int64 }

func (c *zzClock) CurrentUnixNano() int64 { return c.t }

// ---------------------------------------------------------------------------------------------
// H03a: one setNext step of the counting ring from an arbitrary state satisfying the
// representation invariant Inv_c (DESIGN §8/C03).
func ZZ_H03a_RingStep() {
	size := uint(1 + zzvrt.Choose("size-1", zzvrt.Param("max_ring", 8)))
	c := newCountingStats(size)
	bits := zzvrt.Uint64("bits")
	zzvrt.Assume(bits < uint64(1)<<size)
	c.bitSet = bitset.FromWithLength(size, []uint64{bits})
	head := zzvrt.Uint("head")
	occ := zzvrt.Uint("occ")
	zzvrt.Assume(head < size)
	zzvrt.Assume(occ <= size)
	if occ < size {
		zzvrt.Assume(head == occ)
	}
	// successes = popcount of the occupied positions [0,occ); unoccupied positions are zero
	var pc uint
	for i := uint(0); i < size; i++ {
		if i < occ {
			pc += uint((bits >> i) & 1)
		} else {
			zzvrt.Assume((bits>>i)&1 == 0)
		}
	}
	c.head, c.occupiedBits, c.successes, c.failures = head, occ, pc, occ-pc
	v := zzvrt.Bool("v")
	evictedBit := (bits >> head) & 1

	prev := c.setNext(v)

	zzvrt.Assert(c.occupiedBits <= size, "ring: occupied <= size")
	zzvrt.Assert(c.head < size, "ring: head < size")
	zzvrt.Assert(c.successes+c.failures == c.occupiedBits, "ring: successes+failures == occupied")
	nb := c.bitSet.Bytes()[0]
	var pc2 uint
	for i := uint(0); i < size; i++ {
		if i < c.occupiedBits {
			pc2 += uint((nb >> i) & 1)
		}
	}
	zzvrt.Assert(c.successes == pc2, "ring: successes == popcount of window")
	if occ < size {
		zzvrt.Assert(prev == -1, "ring: no eviction while filling")
		zzvrt.Assert(c.occupiedBits == occ+1, "ring: occupied grows by one")
		zzvrt.Assert(c.head == c.occupiedBits%size, "ring: head == occupied while filling")
	} else {
		zzvrt.Assert(c.occupiedBits == size, "ring: stays full")
		if evictedBit == 1 {
			zzvrt.Assert(prev == 1, "ring: evicted success reported")
		} else {
			zzvrt.Assert(prev == 0, "ring: evicted failure reported")
		}
	}
	// only the head position changed, and it holds the new value
	if v {
		zzvrt.Assert((nb>>head)&1 == 1, "ring: written bit is success")
	} else {
		zzvrt.Assert((nb>>head)&1 == 0, "ring: written bit is failure")
	}
	mask := ^(uint64(1) << head)
	zzvrt.Assert(nb&mask == bits&mask, "ring: other positions unchanged")
	if head+1 == size {
		zzvrt.Assert(c.head == 0, "ring: head wraps")
	} else {
		zzvrt.Assert(c.head == head+1, "ring: head advances")
	}
	zzvrt.Reach("ring-step-done")
}

// ---------------------------------------------------------------------------------------------
// H03c: one record on the time-bucketed stats from an arbitrary valid state: buckets whose slice
// is older than 10 slices are dropped, everything newer is kept, the summary is the sum.
var zzBucketNanos = []int64{1, 7, 100, 100000000, 6000000000}

func ZZ_H03c_TimedStep() {
	bn := zzBucketNanos[zzvrt.Param("bucket_base", 0)+zzvrt.Choose("bucketNanos", zzvrt.Param("bucket_cfgs", len(zzBucketNanos)))]
	clk := &zzClock{}
	s := newTimedStats(defaultBucketCount, time.Duration(bn*10), clk)
	zzvrt.Assert(s.bucketNanos == bn, "timed: bucket width is period/10")
	// Arbitrary pre-state: head slice h (symbolic), arbitrary bucket contents < 2^16, summary = sum.
	// Ghost: bucket j holds the results of the unique slice in (h-10, h] congruent to j mod 10.
	// The ring position h%10 and the number of slices the clock moves are fixed by one fork each, so
	// that every index below is concrete while h, t and the counts stay symbolic.
	// The head slice itself comes from a grid covering every ring position at three magnitudes (the
	// code depends on head only through head%10 and differences; a fully symbolic head makes the
	// chain of (head+i+1)%10 remainders undecided within 60 s by either solver).
	hm := int64(zzvrt.Choose("head%10", 10))
	h := []int64{0, 10, 1000000}[zzvrt.Choose("head-magnitude", 3)] + hm
	s.head = h
	var sumS, sumF uint
	pre := [10]stat{}
	for j := 0; j < 10; j++ {
		su := zzvrt.Uint("succ")
		fa := zzvrt.Uint("fail")
		zzvrt.Assume(su < 1<<16)
		zzvrt.Assume(fa < 1<<16)
		pre[j] = stat{successes: su, failures: fa}
		s.buckets[j] = pre[j]
		sumS += su
		sumF += fa
	}
	s.summary = stat{successes: sumS, failures: sumF}
	t := zzvrt.Int64("t")
	zzvrt.Assume(t >= 0) // (the clock never runs backwards: nh >= h is assumed below)
	zzvrt.Assume(t < int64(1)<<47)
	clk.t = t
	nh := t / bn
	move := int64(zzvrt.Choose("slices-moved", 11)) // 0..9 exactly, 10 = ten or more
	var nhm int64
	if move < 10 {
		zzvrt.Assume(nh-h == move)
		nhm = (hm + move) % 10
	} else {
		zzvrt.Assume(nh-h >= 10)
		nhm = int64(zzvrt.Choose("newhead%10", 10))
		zzvrt.Assume(nh%10 == nhm)
	}
	succ := zzvrt.Choose("success", 2) == 1

	if succ {
		s.recordSuccess()
	} else {
		s.recordFailure()
	}

	zzvrt.Assert(s.head == nh, "timed: head follows the clock")
	var expS, expF uint
	for j := int64(0); j < 10; j++ {
		// age (in slices) of bucket j's content relative to the old head
		d := hm - j
		if d < 0 {
			d += 10
		}
		// its slice is h-d; it survives iff h-d > nh-10  <=>  d + move < 10
		keep := move < 10 && d+move < 10
		var es, ef uint
		if keep {
			es, ef = pre[j].successes, pre[j].failures
		}
		if j == nhm {
			if succ {
				es++
			} else {
				ef++
			}
		}
		zzvrt.Assert(s.buckets[j].successes == es, "timed: bucket successes kept iff younger than 10 slices")
		zzvrt.Assert(s.buckets[j].failures == ef, "timed: bucket failures kept iff younger than 10 slices")
		expS += es
		expF += ef
	}
	zzvrt.Assert(s.summary.successes == expS, "timed: summary successes == sum of buckets")
	zzvrt.Assert(s.summary.failures == expF, "timed: summary failures == sum of buckets")
	zzvrt.Reach("timed-step-done")
}

// ---------------------------------------------------------------------------------------------
// H03g: bounded history through the public API against the reference machine of Appendix B.

type zzCfg struct {
	f, c   uint // failure threshold f of capacity c
	s, cs  uint // success threshold s of capacity cs (0 = none)
	period time.Duration
	timed  bool
	rate   uint // failure rate threshold in percent (0 = count based), with execution threshold e
	e      uint
}

var zzCfgs = []zzCfg{
	{f: 1, c: 1},
	{f: 2, c: 3},
	{f: 2, c: 2, s: 2, cs: 3},
	{f: 3, c: 3, s: 1, cs: 1},
	{f: 2, c: 2, period: 1000, timed: true},
	{f: 1, c: 2, s: 2, cs: 2},
	{f: 1, c: 1, rate: 50, e: 2, period: 1000, timed: true},
}

// pct is the documented rounding of a percentage: round half away from zero of 100*a/n (exact integer
// arithmetic; with the window sizes reachable in bounded histories no exact .5 tie occurs).
func zzPct(a, n uint) uint {
	if n == 0 {
		return 0
	}
	return (200*a + n) / (2 * n)
}

var zzErrBreaker = errors.New("breaker-test")

type zzRes struct {
	ok    bool
	slice int64
}

// zzWin is a reference sliding window: the last cap results, or (timed) the results of the last 10 slices.
type zzWin struct {
	timed bool
	bn    int64
	cap   uint
	ents  []zzRes
}

func (w *zzWin) add(ok bool, t int64) {
	if w.timed {
		sl := t / w.bn
		var kept []zzRes
		for _, e := range w.ents {
			if e.slice > sl-10 {
				kept = append(kept, e)
			}
		}
		w.ents = append(kept, zzRes{ok, sl})
		return
	}
	w.ents = append(w.ents, zzRes{ok, 0})
	if uint(len(w.ents)) > w.cap {
		w.ents = w.ents[1:]
	}
}

func (w *zzWin) count() (n, fl, su uint) {
	for _, e := range w.ents {
		n++
		if e.ok {
			su++
		} else {
			fl++
		}
	}
	return
}

type zzRef struct {
	cfg       zzCfg
	mode      State
	win       *zzWin // window of the current state; while open: the window of the state that was left
	openStart int64
	openDelay time.Duration
	permits   uint
	delay     time.Duration
	evOld     []State
	evNew     []State
	evExecs   []uint
}

func (r *zzRef) closedWin() *zzWin {
	if r.cfg.timed {
		return &zzWin{timed: true, bn: int64(r.cfg.period) / 10}
	}
	return &zzWin{cap: r.cfg.c}
}

func (r *zzRef) hc() uint {
	if r.cfg.cs != 0 {
		return r.cfg.cs
	}
	if r.cfg.rate != 0 {
		return r.cfg.e
	}
	if r.cfg.timed {
		return r.cfg.f // failureExecutionThreshold == f for WithFailureThresholdPeriod
	}
	return r.cfg.c
}

func (r *zzRef) transition(to State, t int64) {
	if r.mode == to {
		return
	}
	n, _, _ := r.win.count()
	r.evOld = append(r.evOld, r.mode)
	r.evNew = append(r.evNew, to)
	r.evExecs = append(r.evExecs, n)
	switch to {
	case OpenState:
		r.openStart = t
		r.openDelay = r.delay
	case HalfOpenState:
		r.win = &zzWin{cap: r.hc()}
		r.permits = r.hc()
	case ClosedState:
		r.win = r.closedWin()
	}
	r.mode = to
}

func (r *zzRef) record(ok bool, t int64) {
	r.win.add(ok, t)
	n, fl, su := r.win.count()
	switch r.mode {
	case ClosedState:
		e := uint(0)
		if r.cfg.timed {
			e = r.cfg.f
		}
		if r.cfg.rate != 0 {
			if n >= r.cfg.e {
				if zzPct(fl, n) >= r.cfg.rate {
					r.transition(OpenState, t)
				}
			}
		} else if n >= e {
			if fl >= r.cfg.f {
				r.transition(OpenState, t)
			}
		}
	case HalfOpenState:
		closeIt, openIt := false, false
		if r.cfg.s != 0 {
			closeIt = su >= r.cfg.s
			openIt = fl > r.cfg.cs-r.cfg.s
		} else if r.cfg.rate != 0 {
			if n >= r.cfg.e {
				openIt = zzPct(fl, n) >= r.cfg.rate
				closeIt = zzPct(su, n) > 100-r.cfg.rate
			}
		} else {
			openIt = fl >= r.cfg.f
			closeIt = su > r.cfg.c-r.cfg.f
		}
		r.permits++
		if closeIt {
			r.transition(ClosedState, t)
		} else if openIt {
			r.transition(OpenState, t)
		}
	}
}

func (r *zzRef) tryAcquire(t int64) bool {
	switch r.mode {
	case ClosedState:
		return true
	case OpenState:
		if t-r.openStart >= int64(r.openDelay) {
			r.transition(HalfOpenState, t)
			r.permits--
			return true
		}
		return false
	}
	if r.permits > 0 {
		r.permits--
		return true
	}
	return false
}

func (r *zzRef) remaining(t int64) time.Duration {
	if r.mode != OpenState {
		return 0
	}
	d := r.openDelay - time.Duration(t-r.openStart)
	if d < 0 {
		d = 0
	}
	return d
}

func ZZ_H03g_History() {
	cfg := zzCfgs[zzvrt.Param("cfg_base", 0)+zzvrt.Choose("cfg", zzvrt.Param("cfgs", len(zzCfgs)))]
	var delay time.Duration
	var t int64
	clk := &zzClock{}
	if cfg.timed {
		// time-windowed configuration: instants from a concrete grid around the slice boundaries (the
		// symbolic treatment of the window is H03c's); count-based ones: symbolic instants and delay
		delay = []time.Duration{0, 250}[zzvrt.Choose("delay", 2)]
		t = []int64{0, 599}[zzvrt.Choose("t0", 2)]
	} else {
		delay = zzvrt.Duration("delay")
		zzvrt.Assume(delay >= 0)
		zzvrt.Assume(delay < 1<<40)
		t = zzvrt.Int64("t0")
		zzvrt.Assume(t >= 0)
		zzvrt.Assume(t < 1<<40)
	}
	clk.t = t
	var evOld, evNew []State
	var evExecs []uint
	var specific []State
	b := Builder[int]().WithDelay(delay)
	if cfg.rate != 0 {
		b = b.WithFailureRateThreshold(cfg.rate, cfg.e, cfg.period)
	} else if cfg.timed {
		b = b.WithFailureThresholdPeriod(cfg.f, cfg.period)
	} else {
		b = b.WithFailureThresholdRatio(cfg.f, cfg.c)
	}
	if cfg.s != 0 {
		b = b.WithSuccessThresholdRatio(cfg.s, cfg.cs)
	}
	b.OnStateChanged(func(e StateChangedEvent) {
		evOld = append(evOld, e.OldState)
		evNew = append(evNew, e.NewState)
		evExecs = append(evExecs, e.Metrics().Executions())
	}).OnOpen(func(e StateChangedEvent) { specific = append(specific, OpenState) }).
		OnHalfOpen(func(e StateChangedEvent) { specific = append(specific, HalfOpenState) }).
		OnClose(func(e StateChangedEvent) { specific = append(specific, ClosedState) })
	b.(*config[int]).clock = clk
	cb := b.Build()
	ref := &zzRef{cfg: cfg, mode: ClosedState, delay: delay}
	ref.win = ref.closedWin()

	K := zzvrt.Param("ops", 3)
	for i := 0; i < K; i++ {
		// time passes (possibly not at all) before each operation
		var dt int64
		if cfg.timed {
			dt = []int64{0, 100, 250, 900, 1000}[zzvrt.Choose("dt", 5)]
		} else {
			dt = zzvrt.Int64("dt")
			zzvrt.Assume(dt >= 0)
			zzvrt.Assume(dt < 1<<40)
		}
		t += dt
		clk.t = t
		switch zzvrt.Choose("op", 6+zzvrt.Param("record_ops", 0)) {
		case 6:
			cb.RecordError(zzErrBreaker) // classified by the default condition: any error is a failure
			ref.record(false, t)
		case 7:
			cb.RecordResult(5) // no error, no matching handle condition: a success
			ref.record(true, t)
		case 0:
			cb.RecordSuccess()
			ref.record(true, t)
		case 1:
			cb.RecordFailure()
			ref.record(false, t)
		case 2:
			got := cb.TryAcquirePermit()
			want := ref.tryAcquire(t)
			zzvrt.Assert(got == want, "history: TryAcquirePermit agrees with the reference machine")
		case 3:
			cb.Open()
			ref.transition(OpenState, t)
		case 4:
			cb.HalfOpen()
			ref.transition(HalfOpenState, t)
		case 5:
			cb.Close()
			ref.transition(ClosedState, t)
		}
		zzvrt.Assert(cb.State() == ref.mode, "history: state agrees with the reference machine")
		zzvrt.Assert(cb.RemainingDelay() == ref.remaining(t), "history: remaining delay = max(0, delay - elapsed)")
		n, fl, su := ref.win.count()
		m := cb.Metrics()
		zzvrt.Assert(m.Executions() == n, "history: Metrics.Executions agrees")
		zzvrt.Assert(m.Failures() == fl, "history: Metrics.Failures agrees")
		zzvrt.Assert(m.Successes() == su, "history: Metrics.Successes agrees")
		zzvrt.Assert(m.FailureRate() == zzPct(fl, n), "history: Metrics.FailureRate is the rounded percentage")
		zzvrt.Assert(m.SuccessRate() == zzPct(su, n), "history: Metrics.SuccessRate is the rounded percentage")
	}
	zzvrt.Assert(len(evNew) == len(ref.evNew), "history: number of state-change events")
	zzvrt.Assert(len(specific) == len(evNew), "history: one specific listener call per generic one")
	for i := range evNew {
		if i < len(ref.evNew) {
			zzvrt.Assert(evOld[i] == ref.evOld[i], "history: event OldState")
			zzvrt.Assert(evNew[i] == ref.evNew[i], "history: event NewState")
			zzvrt.Assert(evExecs[i] == ref.evExecs[i], "history: event metrics are those of the state being left")
			zzvrt.Assert(specific[i] == evNew[i], "history: specific listener matches the new state")
			if i > 0 {
				zzvrt.Assert(evOld[i] == evNew[i-1], "history: events form a connected path")
			}
		}
	}
	zzvrt.Reach("history-done")
}

// ---------------------------------------------------------------------------------------------
// H03b: the rate functions compute the percentage rounded half away from zero, for every
// 0 <= x <= n <= N (floating point division of two symbolic integers). On an exact .5 tie the
// float pipeline may land on either neighbour (e.g. 13851/48600 gives 28, not 29), both are accepted.
func ZZ_H03b_RateLemma() {
	N := uint(zzvrt.Param("max_n", 16))
	n := zzvrt.Uint("n")
	x := zzvrt.Uint("x")
	zzvrt.Assume(n >= 1)
	zzvrt.Assume(n <= N)
	zzvrt.Assume(x <= n)
	var got uint
	switch zzvrt.Choose("function", 4) {
	case 0:
		got = (&countingStats{occupiedBits: n, failures: x, successes: n - x}).failureRate()
	case 1:
		got = (&countingStats{occupiedBits: n, failures: n - x, successes: x}).successRate()
	case 2:
		got = (&timedStats{summary: stat{failures: x, successes: n - x}}).failureRate()
	default:
		got = (&timedStats{summary: stat{failures: n - x, successes: x}}).successRate()
	}
	lo := (100 * x) / n
	rem := (100 * x) % n
	want := lo
	if 2*rem > n {
		want = lo + 1
	}
	if 2*rem == n {
		zzvrt.Assert(got >= lo, "rate: rounded percentage (tie: either neighbour)")
		zzvrt.Assert(got <= lo+1, "rate: rounded percentage (tie: either neighbour)")
	} else {
		zzvrt.Assert(got == want, "rate: percentage rounded to the nearest integer")
	}
	zzvrt.Assert((&countingStats{}).failureRate() == 0, "rate: zero executions give rate 0")
	zzvrt.Reach("rate-lemma-done")
}

// ---------------------------------------------------------------------------------------------
// H03d: one step of the state machine from an ARBITRARY window content (inductive in the window: the counts are symbolic,
// the ring / bucket mechanics that maintain them are H03a / H03c). zzStats is a stats stub whose counts are whatever the
// harness says; a record first lets an arbitrary part of the window expire or be evicted (as time passing or a full ring
// would), then counts the new result. Rates use the integer rounding proved for the real stats types by H03b.
type zzStats struct {
	s, f   uint
	cap    uint // window capacity of a counting window (0: time window, no capacity)
	evictS bool // a full counting window evicts this kind of result next (harness nondet, consistent with the counts)
	dropS  uint // results leaving a time window before the next record
	dropF  uint
}

func (z *zzStats) executionCount() uint { return z.s + z.f }
func (z *zzStats) failureCount() uint   { return z.f }
func (z *zzStats) successCount() uint   { return z.s }
func (z *zzStats) failureRate() uint    { return zzPct(z.f, z.s+z.f) }
func (z *zzStats) successRate() uint    { return zzPct(z.s, z.s+z.f) }
func (z *zzStats) reset()               { z.s, z.f = 0, 0 }
func (z *zzStats) leave() {
	if z.cap == 0 {
		z.s -= z.dropS
		z.f -= z.dropF
		return
	}
	if z.s+z.f == z.cap {
		if z.evictS {
			z.s--
		} else {
			z.f--
		}
	}
}
func (z *zzStats) recordFailure() { z.leave(); z.f++ }
func (z *zzStats) recordSuccess() { z.leave(); z.s++ }

func zzSmall(name string, lo, hi uint) uint {
	v := zzvrt.Uint(name)
	zzvrt.Assume(v >= lo)
	zzvrt.Assume(v <= hi)
	return v
}

func ZZ_H03d_StateStep() {
	maxC := uint(zzvrt.Param("max_cap", 4))
	cb := Builder[int]().Build().(*circuitBreaker[int])
	clk := &zzClock{}
	cb.clock = clk
	D := zzvrt.Duration("delay")
	zzvrt.Assume(D >= 0)
	zzvrt.Assume(D < 1<<40)
	cb.Delay = D
	fam := zzvrt.Choose("family", 4)
	var fth, c, sth, cs, r, e uint
	timed := false
	switch fam {
	case 0: // failure threshold ratio fth of c
		c = zzSmall("capacity", 1, maxC)
		fth = zzSmall("failureThreshold", 1, c)
		cb.failureThreshold, cb.failureThresholdingCapacity = fth, c
	case 1: // + success threshold ratio sth of cs
		c = zzSmall("capacity", 1, maxC)
		fth = zzSmall("failureThreshold", 1, c)
		cs = zzSmall("successCapacity", 1, maxC)
		sth = zzSmall("successThreshold", 1, cs)
		cb.failureThreshold, cb.failureThresholdingCapacity = fth, c
		cb.successThreshold, cb.successThresholdingCapacity = sth, cs
	case 2: // failure count within a period
		fth = zzSmall("failureThreshold", 1, maxC)
		c, e, timed = fth, fth, true
		cb.failureThreshold, cb.failureThresholdingCapacity, cb.failureExecutionThreshold, cb.failureThresholdingPeriod = fth, fth, fth, 1000
	case 3: // failure rate r% with at least e executions within a period
		r = zzSmall("rate", 1, 100)
		e = zzSmall("executionThreshold", 1, maxC)
		timed = true
		cb.failureThreshold, cb.failureThresholdingCapacity = 0, 0
		cb.failureRateThreshold, cb.failureExecutionThreshold, cb.failureThresholdingPeriod = r, e, 1000
	}
	hc := cs // trial capacity
	if hc == 0 {
		hc = e
	}
	if hc == 0 {
		hc = c
	}
	opens, closes, changes := 0, 0, 0
	var oldSeen State
	cb.openListener = func(ev StateChangedEvent) { opens++; oldSeen = ev.OldState }
	cb.closeListener = func(ev StateChangedEvent) { closes++; oldSeen = ev.OldState }
	cb.stateChangedListener = func(ev StateChangedEvent) { changes++ }

	st := &zzStats{s: zzvrt.Uint("successes"), f: zzvrt.Uint("failures"), evictS: zzvrt.Bool("evict-success")}
	zzvrt.Assume(st.s <= 64)
	zzvrt.Assume(st.f <= 64)
	mode := State(zzvrt.Choose("state", 3))
	now := zzvrt.Int64("now")
	zzvrt.Assume(now >= 0)
	zzvrt.Assume(now < 1<<46)
	clk.t = now
	permits := uint(0)
	switch mode {
	case ClosedState:
		if timed {
			st.dropS, st.dropF = zzvrt.Uint("expired-successes"), zzvrt.Uint("expired-failures")
			zzvrt.Assume(st.dropS <= st.s)
			zzvrt.Assume(st.dropF <= st.f)
		} else {
			st.cap = c
			zzvrt.Assume(st.s+st.f <= c)
		}
		cb.state = &closedState[int]{breaker: cb, stats: st}
	case HalfOpenState:
		st.cap = hc
		zzvrt.Assume(st.s+st.f < hc) // the result being recorded belongs to an admitted trial: the window is not yet full of decided ones
		permits = zzvrt.Uint("permits")
		zzvrt.Assume(permits+st.s+st.f < hc) // at least this trial is in flight
		cb.state = &halfOpenState[int]{breaker: cb, stats: st, permittedExecutions: permits}
	case OpenState:
		start := zzvrt.Int64("openedAt")
		zzvrt.Assume(start >= 0)
		zzvrt.Assume(start <= now)
		cb.state = &openState[int]{breaker: cb, stats: st, startTime: start, delay: D}
		// open: a permit request half-opens exactly once the delay has elapsed (boundary included), else is refused
		rem := cb.RemainingDelay()
		el := time.Duration(now - start)
		if el >= D {
			zzvrt.Assert(rem == 0, "breaker-step: remaining delay is zero once the delay has elapsed")
		} else {
			zzvrt.Assert(rem == D-el, "breaker-step: remaining delay is the delay minus the time spent open")
		}
		got := cb.TryAcquirePermit()
		if el >= D {
			zzvrt.Assert(got, "breaker-step: the first request after the delay is admitted as a trial")
			zzvrt.Assert(cb.state.state() == HalfOpenState, "breaker-step: open half-opens on the next request once the delay has elapsed")
			if ho, ok := cb.state.(*halfOpenState[int]); ok {
				zzvrt.Assert(ho.permittedExecutions == hc-1, "breaker-step: the request that half-opens the breaker takes one of the trial permits")
			}
			zzvrt.Assert(changes == 1, "breaker-step: exactly one state-change event per transition")
		} else {
			zzvrt.Assert(!got, "breaker-step: an open breaker admits nothing before its delay has elapsed")
			zzvrt.Assert(cb.state.state() == OpenState, "breaker-step: stays open for exactly the delay")
			zzvrt.Assert(changes == 0, "breaker-step: no event without a transition")
		}
		zzvrt.Reach("open-step-done")
		return
	}
	ok := zzvrt.Choose("result", 2) == 1
	if ok {
		cb.RecordSuccess()
	} else {
		cb.RecordFailure()
	}
	s2, f2 := st.s, st.f // the window after the record (the stub is not replaced by a transition, only abandoned)
	n2 := s2 + f2
	want := mode
	if mode == ClosedState {
		if n2 >= e {
			if r != 0 {
				if zzPct(f2, n2) >= r {
					want = OpenState
				}
			} else if f2 >= fth {
				want = OpenState
			}
		}
	} else {
		closeIt, openIt := false, false
		if sth != 0 {
			closeIt = s2 >= sth
			openIt = f2 > cs-sth
		} else if r != 0 {
			if n2 >= e {
				openIt = zzPct(f2, n2) >= r
				closeIt = zzPct(s2, n2) > 100-r
			}
		} else {
			openIt = f2 >= fth
			closeIt = s2 > c-fth
		}
		if closeIt {
			want = ClosedState
		} else if openIt {
			want = OpenState
		}
		if n2 == hc {
			zzvrt.Assert(want != HalfOpenState, "breaker-step: the half-open decision falls within the trial capacity")
		}
	}
	got := cb.state.state()
	zzvrt.Observe("state", int(got))
	zzvrt.Assert(got == want, "breaker-step: state after a recorded result is the documented machine's")
	if want == mode {
		zzvrt.Assert(opens+closes+changes == 0, "breaker-step: no event without a transition")
		if mode == HalfOpenState {
			if ho, ok := cb.state.(*halfOpenState[int]); ok {
				zzvrt.Assert(ho.permittedExecutions == permits+1, "breaker-step: a recorded trial gives its permit back")
			}
		}
	} else {
		zzvrt.Assert(changes == 1, "breaker-step: exactly one state-change event per transition")
		zzvrt.Assert(opens+closes == 1, "breaker-step: exactly one specific event per transition")
		zzvrt.Assert((opens == 1) == (want == OpenState), "breaker-step: the specific event matches the new state")
		zzvrt.Assert(oldSeen == mode, "breaker-step: the event's old state is the state that was left")
		if want == OpenState {
			zzvrt.Assert(cb.RemainingDelay() == D, "breaker-step: a freshly opened breaker stays open for the configured delay")
			zzvrt.Assert(!cb.TryAcquirePermit() || D == 0, "breaker-step: an open breaker admits nothing before its delay has elapsed")
		}
	}
	zzvrt.Reach("record-step-done")
}

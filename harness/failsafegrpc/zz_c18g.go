//go:build verif

package failsafegrpc

import (
	"context"
	"errors"

	"google.golang.org/grpc"
	"google.golang.org/grpc/codes"
	"google.golang.org/grpc/status"

	"github.com/failsafe-go/failsafe-go"
	"github.com/failsafe-go/failsafe-go/internal/zzvrt"
)

// gRPC carries outgoing and incoming metadata as context values; a private key stands for them here.
type zzMDKey struct{}

type zzReq struct{ n int }
type zzReply struct{ v int }

type zzCallOpt struct{ grpc.EmptyCallOption }

var zzErrPlain = errors.New("plain")

// H18f: the unary client and server interceptors pass the call's arguments, reply and error through unchanged, run
// every attempt under a context that carries the caller's context values (metadata) and is live, and — with the
// adapter's retry policy — retry exactly the documented status codes (UNAVAILABLE, DEADLINE_EXCEEDED, RESOURCE_EXHAUSTED).
func ZZ_H18f_GrpcInterceptors() {
	code := codes.Code(zzvrt.Choose("code", 17)) // OK(0) .. Unauthenticated(16)
	plain := zzvrt.Choose("plain-error", 2) == 1 // an error that is not a gRPC status
	var callErr error
	if plain {
		callErr = zzErrPlain
	} else if code != codes.OK {
		callErr = status.Error(code, "x")
	}
	retryable := !plain && (code == codes.Unavailable || code == codes.DeadlineExceeded || code == codes.ResourceExhausted)
	rp := RetryPolicyBuilder[*zzReply]().WithMaxRetries(1).Build()
	var callerCtx context.Context = context.WithValue(context.Background(), zzMDKey{}, 42)
	ex := failsafe.NewExecutor[*zzReply](rp)
	exCancel := func() {}
	if zzvrt.Choose("executor-ctx", 2) == 1 {
		var ectx context.Context
		ectx, exCancel = context.WithCancel(context.Background())
		ex = ex.WithContext(ectx)
	}
	req := &zzReq{n: zzvrt.Int("req")}
	calls := 0
	var gotErr error
	if zzvrt.Choose("side", 2) == 0 {
		reply := &zzReply{}
		opt := zzCallOpt{}
		invoker := func(ctx context.Context, method string, rq, rpl any, cc *grpc.ClientConn, opts ...grpc.CallOption) error {
			calls++
			zzvrt.Assert(method == "/svc/M", "grpc: the invoker gets the call's method unchanged")
			zzvrt.Assert(rq == any(req), "grpc: the invoker gets the call's request unchanged")
			zzvrt.Assert(rpl == any(reply), "grpc: the invoker gets the call's reply unchanged")
			zzvrt.Assert(cc == nil, "grpc: the invoker gets the call's connection unchanged")
			zzvrt.Assert(len(opts) == 1, "grpc: the invoker gets the call options unchanged")
			zzvrt.Assert(ctx.Value(zzMDKey{}) == 42, "grpc: the attempt's context carries the caller's context values (metadata)")
			zzvrt.Assert(ctx.Err() == nil, "grpc: the attempt's context is live while the caller's and the execution's are")
			if calls == 1 {
				return callErr
			}
			reply.v = 5
			return nil
		}
		gotErr = NewUnaryClientInterceptorWithExecutor[*zzReply](ex)(callerCtx, "/svc/M", req, reply, nil, invoker, opt)
		if calls == 2 {
			zzvrt.Assert(reply.v == 5, "grpc: the reply filled in by the last attempt reaches the caller")
		}
	} else {
		info := &grpc.UnaryServerInfo{FullMethod: "/svc/M"}
		out := &zzReply{v: 6}
		handler := func(ctx context.Context, rq any) (any, error) {
			calls++
			zzvrt.Assert(rq == any(req), "grpc: the handler gets the call's request unchanged")
			zzvrt.Assert(ctx.Value(zzMDKey{}) == 42, "grpc: the attempt's context carries the caller's context values (metadata)")
			zzvrt.Assert(ctx.Err() == nil, "grpc: the attempt's context is live while the caller's and the execution's are")
			if calls == 1 {
				if callErr != nil {
					return nil, callErr
				}
			}
			return out, nil
		}
		var resp any
		resp, gotErr = NewUnaryServerInterceptorWithExecutor[*zzReply](ex)(callerCtx, req, info, handler)
		if gotErr == nil {
			zzvrt.Assert(resp == any(out), "grpc: the handler's response reaches the caller unchanged")
		}
	}
	if callErr == nil {
		zzvrt.Assert(calls == 1, "grpc: a successful call is not retried")
		zzvrt.Assert(gotErr == nil, "grpc: the call's error reaches the caller unchanged")
	} else if retryable {
		zzvrt.Assert(calls == 2, "grpc: UNAVAILABLE, DEADLINE_EXCEEDED and RESOURCE_EXHAUSTED are retried")
		zzvrt.Assert(gotErr == nil, "grpc: the retried call's outcome reaches the caller")
	} else {
		zzvrt.Assert(calls == 1, "grpc: other status codes and non-status errors are not retried")
		zzvrt.Assert(gotErr == callErr, "grpc: the call's error reaches the caller unchanged")
	}
	exCancel()
	zzvrt.Quiesce()
	zzvrt.Assert(zzvrt.Live() == 0, "leak: no goroutine left by the gRPC adapter's context merger")
	zzvrt.Assert(zzvrt.PendingCallbacks() == 0, "leak: the gRPC adapter's context merger detaches from the source contexts")
	zzvrt.Reach("grpc-done")
}

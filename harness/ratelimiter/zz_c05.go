//go:build verif

package ratelimiter

import (
	"time"

	"github.com/failsafe-go/failsafe-go/internal/zzvrt"
)

// zzStopwatch is the virtual stopwatch hook: elapsed time is whatever the harness says.
type zzStopwatch struct{ t time.Duration }

func (s *zzStopwatch) ElapsedTime() time.Duration { return s.t }
func (s *zzStopwatch) Reset()                     { s.t = 0 }

var zzSmoothIntervals = []time.Duration{1, 3, 7, 1000, 1000000, 333333333, 1000000000}

type zzBurstyCfg struct {
	m int
	p time.Duration
}

var zzBurstyCfgs = []zzBurstyCfg{{1, time.Second}, {2, time.Second}, {2, 50 * time.Millisecond}, {4, time.Second}, {8, 7}, {3, time.Millisecond}, {5, 7}, {100, time.Second}}

// zzNBursty is how many entries of the grid the tier explores; zzBits bounds deficit / permits.
func zzNBursty() int { return zzvrt.Param("bursty_cfgs", 3) }

const zzMaxT = int64(1) << 47

func zzMaxWait() time.Duration {
	m := zzvrt.Int64("maxWait")
	zzvrt.Assume(m >= -1)
	zzvrt.Assume(m < zzMaxT)
	return time.Duration(m)
}

// H05a: one smooth acquirePermits from an arbitrary valid state (inductive step, Appendix C).
func ZZ_H05a_SmoothStep() {
	I := zzSmoothIntervals[zzvrt.Param("smooth_base", 0)+zzvrt.Choose("interval", zzvrt.Param("smooth_cfgs", len(zzSmoothIntervals)))]
	sw := &zzStopwatch{}
	s := &smoothStats[int]{config: &config[int]{interval: I}, stopwatch: sw}
	// arbitrary pre-state under the invariant: N multiple of I, N >= 0
	N := zzvrt.Duration("N")
	zzvrt.Assume(N >= 0)
	zzvrt.Assume(N < 1<<50)
	zzvrt.Assume(N%I == 0)
	s.nextFreePermitTime = N
	t := zzvrt.Int64("t")
	zzvrt.Assume(t >= 0)
	zzvrt.Assume(t < zzMaxT)
	sw.t = time.Duration(t)
	k := zzvrt.Int64("k")
	zzvrt.Assume(k >= 1)
	zzvrt.Assume(k <= 1024)
	m := zzMaxWait()

	wait := s.acquirePermits(int(k), m)

	// reference (Appendix C)
	first := time.Duration(t) - time.Duration(t)%I
	if N > first {
		first = N
	}
	last := first + time.Duration(k-1)*I
	refWait := last - time.Duration(t)
	if refWait < 0 {
		refWait = 0
	}
	refuse := false
	if m != -1 {
		if refWait > m {
			refuse = true
		}
	}
	zzvrt.Observe("wait", wait)
	if refuse {
		zzvrt.Assert(wait == -1, "smooth: request whose wait exceeds maxWait is refused")
		zzvrt.Assert(s.nextFreePermitTime == N, "smooth: refusal leaves state unchanged")
		return
	}
	zzvrt.Assert(wait == refWait, "smooth: wait is distance to the last permit's slot start")
	zzvrt.Assert(wait >= 0, "smooth: wait non-negative")
	N2 := s.nextFreePermitTime
	zzvrt.Assert(N2 == last+I, "smooth: next free slot is right after the last assigned slot")
	// (N2 is a multiple of I because first is — it is N or t-t%I — and N2 = first + k*I; asserting N2%I==0
	// directly is the one query neither solver decides for I = 1µs or 333333333 ns, so it is derived, not asked.)
	zzvrt.Assert(first >= N, "smooth: no slot assigned twice (first new slot >= old next-free)")
	// the k usable instants max(t, first+i*I) each lie in their own slot
	usableLast := time.Duration(t) + wait
	zzvrt.Assert(usableLast >= last, "smooth: last permit not usable before its slot")
	zzvrt.Assert(usableLast < last+I, "smooth: last permit usable within its slot (earliest)")
	// earliest: the first slot is the current slot unless already taken
	cur := time.Duration(t) - time.Duration(t)%I
	if N <= cur {
		zzvrt.Assert(first == cur, "smooth: earliest slot is the current one when free")
	}
}

// rolled state per Appendix C: what (a, c) must become when time moves to period c2 >= c.
func zzRoll(a, c, c2, M int) int {
	if c2 <= c {
		return a
	}
	if a < 0 {
		r := a + (c2-c)*M
		if r > M {
			r = M
		}
		return r
	}
	return M
}

// H05b: one bursty acquirePermits from an arbitrary valid state (inductive step).
func ZZ_H05b_BurstyStep() {
	cfg := zzBurstyCfgs[zzvrt.Param("cfg_base", 0)+zzvrt.Choose("cfg", zzNBursty())]
	M, P := cfg.m, cfg.p
	sw := &zzStopwatch{}
	s := &burstyStats[int]{config: &config[int]{periodPermits: M, period: P}, stopwatch: sw}
	a := zzvrt.Int("available")
	zzvrt.Assume(a <= M) // invariant
	zzvrt.Assume(a >= -(1 << zzvrt.Param("deficit_bits", 20)))
	c := zzvrt.Int("period")
	zzvrt.Assume(c >= 0)
	t := zzvrt.Int64("t")
	zzvrt.Assume(t >= 0)
	zzvrt.Assume(t < 1<<zzvrt.Param("t_bits", 47))
	zzvrt.Assume(int64(c) <= t/int64(P)) // the stopwatch never runs backwards
	s.availablePermits, s.currentPeriod = a, c
	sw.t = time.Duration(t)
	k := zzvrt.Int("k")
	zzvrt.Assume(k >= 1)
	zzvrt.Assume(k <= zzvrt.Param("max_k", 1024))
	m := zzMaxWait()

	wait := s.acquirePermits(k, m)

	c2 := int(t / int64(P))
	ar := zzRoll(a, c, c2, M)
	var refWait time.Duration
	if k > ar {
		d := k - ar
		periods := (d + M - 1) / M
		refWait = time.Duration(c2+periods)*P - time.Duration(t)
	}
	refuse := false
	if m != -1 {
		if refWait > m {
			refuse = true
		}
	}
	zzvrt.Observe("wait", wait)
	zzvrt.Assert(s.availablePermits <= M, "bursty: available permits never exceed the period's permits")
	zzvrt.Assert(s.currentPeriod == c2, "bursty: current period follows the clock")
	if refuse {
		zzvrt.Assert(wait == -1, "bursty: request whose wait exceeds maxWait is refused")
		zzvrt.Assert(s.availablePermits == ar, "bursty: refusal leaves (rolled) state unchanged")
		return
	}
	zzvrt.Assert(wait == refWait, "bursty: wait is distance to the period holding the last permit")
	zzvrt.Assert(wait >= 0, "bursty: wait non-negative")
	zzvrt.Assert(s.availablePermits == ar-k, "bursty: permits debited exactly")
}

// H05c: k permits at once == k single requests at the same instant (k <= 4), both kinds.
func ZZ_H05c_KAtOnce() {
	kind := zzvrt.Choose("kind", 2)
	k := 1 + zzvrt.Choose("k-1", 4)
	t := zzvrt.Int64("t")
	zzvrt.Assume(t >= 0)
	zzvrt.Assume(t < zzMaxT)
	if kind == 0 {
		I := zzSmoothIntervals[zzvrt.Param("smooth_base", 0)+zzvrt.Choose("interval", zzvrt.Param("smooth_cfgs", len(zzSmoothIntervals)))]
		N := zzvrt.Duration("N")
		zzvrt.Assume(N >= 0)
		zzvrt.Assume(N < 1<<50)
		zzvrt.Assume(N%I == 0)
		sw := &zzStopwatch{t: time.Duration(t)}
		s1 := &smoothStats[int]{config: &config[int]{interval: I}, stopwatch: sw, nextFreePermitTime: N}
		s2 := &smoothStats[int]{config: &config[int]{interval: I}, stopwatch: sw, nextFreePermitTime: N}
		w1 := s1.acquirePermits(k, -1)
		var w2 time.Duration
		for i := 0; i < k; i++ {
			w2 = s2.acquirePermits(1, -1)
		}
		zzvrt.Assert(w1 == w2, "smooth: k at once waits as long as the last of k singles")
		zzvrt.Assert(s1.nextFreePermitTime == s2.nextFreePermitTime, "smooth: k at once leaves the same state as k singles")
		return
	}
	cfg := zzBurstyCfgs[zzvrt.Param("cfg_base", 0)+zzvrt.Choose("cfg", zzNBursty())]
	a := zzvrt.Int("available")
	zzvrt.Assume(a <= cfg.m)
	zzvrt.Assume(a >= -(1 << 20))
	c := zzvrt.Int("period")
	zzvrt.Assume(c >= 0)
	zzvrt.Assume(int64(c) <= t/int64(cfg.p))
	sw := &zzStopwatch{t: time.Duration(t)}
	s1 := &burstyStats[int]{config: &config[int]{periodPermits: cfg.m, period: cfg.p}, stopwatch: sw, availablePermits: a, currentPeriod: c}
	s2 := &burstyStats[int]{config: &config[int]{periodPermits: cfg.m, period: cfg.p}, stopwatch: sw, availablePermits: a, currentPeriod: c}
	w1 := s1.acquirePermits(k, -1)
	var w2 time.Duration
	for i := 0; i < k; i++ {
		w2 = s2.acquirePermits(1, -1)
	}
	zzvrt.Assert(w1 == w2, "bursty: k at once waits as long as the last of k singles")
	zzvrt.Assert(s1.availablePermits == s2.availablePermits, "bursty: k at once leaves the same state as k singles")
	zzvrt.Assert(s1.currentPeriod == s2.currentPeriod, "bursty: k at once leaves the same period as k singles")
}

// H05g: the public permit API is the documented wrapper around the (separately verified) kernel:
// TryAcquire* = max wait 0 and "true iff no wait", Reserve* = never refused, TryReserve*(m) = refused iff wait > m,
// AcquirePermitsWithMaxWait = ErrExceeded iff refused. Differential against a twin kernel in the same state.
func ZZ_H05g_PublicAPI() {
	bursty := zzvrt.Choose("bursty", 2) == 1
	sw := &zzStopwatch{}
	var rl RateLimiter[int]
	var twin stats
	if bursty {
		cfg := zzBurstyCfgs[zzvrt.Choose("cfg", 2)]
		rl = BurstyBuilder[int](uint(cfg.m), cfg.p).Build()
		st := rl.(*rateLimiter[int]).stats.(*burstyStats[int])
		st.stopwatch = sw
		a := zzvrt.Int("available")
		zzvrt.Assume(a <= cfg.m)
		zzvrt.Assume(a >= -64)
		st.availablePermits = a
		twin = &burstyStats[int]{config: &config[int]{periodPermits: cfg.m, period: cfg.p}, stopwatch: sw, availablePermits: a}
	} else {
		I := zzSmoothIntervals[zzvrt.Choose("interval", 3)]
		rl = SmoothBuilderWithMaxRate[int](I).Build()
		st := rl.(*rateLimiter[int]).stats.(*smoothStats[int])
		st.stopwatch = sw
		N := zzvrt.Duration("N")
		zzvrt.Assume(N >= 0)
		zzvrt.Assume(N < 1<<40)
		zzvrt.Assume(N%I == 0)
		st.nextFreePermitTime = N
		twin = &smoothStats[int]{config: &config[int]{interval: I}, stopwatch: sw, nextFreePermitTime: N}
	}
	t := zzvrt.Int64("t")
	zzvrt.Assume(t >= 0)
	zzvrt.Assume(t < 1<<40)
	sw.t = time.Duration(t)
	k := zzvrt.Uint("k")
	zzvrt.Assume(k >= 1)
	zzvrt.Assume(k <= 8)
	m := zzvrt.Duration("maxWait")
	zzvrt.Assume(m >= 0)
	zzvrt.Assume(m < 1<<40)
	switch zzvrt.Choose("api", 6) {
	case 0:
		zzvrt.Assert(rl.TryAcquirePermit() == (twin.acquirePermits(1, 0) == 0), "limiter: TryAcquirePermit succeeds iff a permit is usable now")
	case 1:
		zzvrt.Assert(rl.TryAcquirePermits(k) == (twin.acquirePermits(int(k), 0) == 0), "limiter: TryAcquirePermits succeeds iff all permits are usable now")
	case 2:
		zzvrt.Assert(rl.ReservePermit() == twin.acquirePermits(1, -1), "limiter: ReservePermit always reserves and returns the wait")
	case 3:
		zzvrt.Assert(rl.ReservePermits(k) == twin.acquirePermits(int(k), -1), "limiter: ReservePermits always reserves and returns the wait")
	case 4:
		zzvrt.Assert(rl.TryReservePermit(m) == twin.acquirePermits(1, m), "limiter: TryReservePermit refuses iff the wait exceeds the max wait")
	case 5:
		zzvrt.Assert(rl.TryReservePermits(k, m) == twin.acquirePermits(int(k), m), "limiter: TryReservePermits refuses iff the wait exceeds the max wait")
	}
	// a second, identical probe sees identical state on both sides (refusals cost nothing, grants cost the same)
	zzvrt.Assert(rl.ReservePermit() == twin.acquirePermits(1, -1), "limiter: public API leaves the limiter in the kernel's state")
	zzvrt.Reach("public-api-done")
}

// H05e: bounded history through the public API from a freshly built limiter, against the property as stated
// (no state-representation oracle): K single-permit requests at symbolic non-decreasing instants, each through
// TryReservePermit(m_i) with a symbolic max wait m_i >= 0. A permit becomes usable at t_i + wait_i.
// Oracle = greedy assignment over the list of permits granted so far: a permit goes to the earliest slot/period
// at or after the request instant that is not before the previous permit's and still has room.
func ZZ_H05e_History() {
	K := zzvrt.Param("ops", 3)
	bursty := zzvrt.Choose("bursty", 2) == 1
	sw := &zzStopwatch{}
	var rl RateLimiter[int]
	var W time.Duration // slot / period width
	M := 1              // permits per slot / period
	if bursty {
		cfg := zzBurstyCfgs[zzvrt.Choose("cfg", zzvrt.Param("bursty_cfgs", 3))]
		rl = BurstyBuilder[int](uint(cfg.m), cfg.p).Build()
		rl.(*rateLimiter[int]).stats.(*burstyStats[int]).stopwatch = sw
		W, M = cfg.p, cfg.m
	} else {
		W = zzSmoothIntervals[zzvrt.Choose("interval", zzvrt.Param("smooth_cfgs", 3))]
		if zzvrt.Choose("builder", 2) == 0 {
			rl = SmoothBuilderWithMaxRate[int](W).Build()
		} else {
			rl = SmoothBuilder[int](4, 4*W).Build() // 4 executions per 4W = one per W
		}
		rl.(*rateLimiter[int]).stats.(*smoothStats[int]).stopwatch = sw
	}
	var us []int64 // usable instants of the permits granted so far
	last := int64(-1)
	lastCnt := 0
	tPrev := int64(0)
	for i := 0; i < K; i++ {
		t := zzvrt.Int64("t")
		zzvrt.Assume(t >= tPrev)
		zzvrt.Assume(t < zzMaxT)
		tPrev = t
		sw.t = time.Duration(t)
		m := zzvrt.Duration("maxWait")
		zzvrt.Assume(m >= 0)
		zzvrt.Assume(m < time.Duration(zzMaxT))
		wait := rl.TryReservePermit(m)
		// greedy reference
		p := t / int64(W)
		cnt := 0
		if last >= p {
			p, cnt = last, lastCnt
		}
		if cnt >= M {
			p, cnt = p+1, 0
		}
		u := p * int64(W)
		if u < t {
			u = t
		}
		refWait := time.Duration(u - t)
		if refWait > m {
			zzvrt.Assert(wait == -1, "limiter-history: a request whose wait exceeds its max wait is refused")
			continue // refusals cost nothing: reference state unchanged
		}
		zzvrt.Assert(wait == refWait, "limiter-history: each permit is granted at the earliest instant that respects the rate and the order of requests")
		last, lastCnt = p, cnt+1
		us = append(us, int64(t)+int64(wait))
	}
	// the property itself over the whole set of usable instants
	n := len(us)
	if n >= 2 {
		for i := 0; i+M < n; i++ {
			// permits are granted in order, so M+1 permits in one slot/period would be consecutive ones
			zzvrt.Assert(us[i]/int64(W) != us[i+M]/int64(W), "limiter-history: never more than the configured permits usable within one slot/period")
		}
		for i := 0; i+1 < n; i++ {
			zzvrt.Assert(us[i] <= us[i+1], "limiter-history: permits become usable in request order")
		}
	}
	zzvrt.Reach("history-done")
}

//go:build verif

package failsafehttp

import (
	"net/http"
	"time"

	"github.com/failsafe-go/failsafe-go"
	"github.com/failsafe-go/failsafe-go/internal/zzvrt"
)

type zzAttempt struct {
	failsafe.ExecutionAttempt[*http.Response]
	last *http.Response
}

func (a zzAttempt) LastResult() *http.Response { return a.last }

var zzRetryAfter = []string{"", "0", "1", "120", "abc", "-5", "1.5", " 7", "99999999999999999999"}
var zzRetryAfterSecs = []int64{-1, 0, 1, 120, -1, -5, -1, -1, -1} // what strconv.Atoi accepts (-1 = does not parse)

// H18b: the Retry-After delay: seconds*1s when the header parses and the status is 429 or 503, else -1.
func ZZ_H18b_RetryAfter() {
	code := zzvrt.Int("status")
	zzvrt.Assume(code >= 100)
	zzvrt.Assume(code < 600)
	hi := zzvrt.Choose("retry-after", len(zzRetryAfter)+1)
	resp := &http.Response{StatusCode: code, Header: http.Header{}}
	if hi < len(zzRetryAfter) {
		resp.Header["Retry-After"] = []string{zzRetryAfter[hi]}
	}
	got := DelayFunc(zzAttempt{last: resp})
	want := time.Duration(-1)
	if hi < len(zzRetryAfter) {
		if zzRetryAfter[hi] == "-5" || zzRetryAfterSecs[hi] >= 0 {
			if code == 429 {
				want = time.Duration(zzRetryAfterSecs[hi]) * time.Second
			}
			if code == 503 {
				want = time.Duration(zzRetryAfterSecs[hi]) * time.Second
			}
		}
	}
	zzvrt.Assert(got == want, "http: Retry-After in seconds is used as the delay for 429/503, otherwise no delay is computed")
	zzvrt.Assert(DelayFunc(zzAttempt{last: nil}) == -1, "http: no delay without a previous response")
}

// H18a: retryable statuses through a real retry policy: 429 and 5xx except 501 are retried, nothing else.
func ZZ_H18a_RetryableStatus() {
	code := zzvrt.Int("status")
	zzvrt.Assume(code >= 100)
	zzvrt.Assume(code < 600)
	rp := RetryPolicyBuilder().WithMaxRetries(1).Build()
	calls := 0
	resp, err := failsafe.NewExecutor[*http.Response](rp).Get(func() (*http.Response, error) {
		calls++
		return &http.Response{StatusCode: code, Header: http.Header{}}, nil
	})
	retryable := false
	if code == 429 {
		retryable = true
	}
	if code >= 500 {
		if code != 501 {
			retryable = true
		}
	}
	if retryable {
		zzvrt.Assert(calls == 2, "http: 429 and 5xx except 501 are retried")
		zzvrt.Assert(err != nil, "http: exhausted retries are reported")
	} else {
		zzvrt.Assert(calls == 1, "http: other statuses are not retried")
		zzvrt.Assert(err == nil, "http: a non-retryable response is returned as is")
		zzvrt.Assert(resp.StatusCode == code, "http: the response finally returned is the last attempt's")
	}
}

// H18d: through the real retry policy: the wait scheduled after a 429/503 with Retry-After: n is at
// least n seconds, computed from the response of the attempt that just failed.
func ZZ_H18d_RetryAfterScheduled() {
	code := []int{429, 503}[zzvrt.Choose("status", 2)]
	secs := []string{"1", "2", "120"}[zzvrt.Choose("retry-after", 3)]
	want := map[string]time.Duration{"1": time.Second, "2": 2 * time.Second, "120": 120 * time.Second}[secs]
	var scheduled []time.Duration
	rp := RetryPolicyBuilder().WithMaxRetries(2).OnRetryScheduled(func(e failsafe.ExecutionScheduledEvent[*http.Response]) {
		scheduled = append(scheduled, e.Delay)
	}).Build()
	calls := 0
	resp, err := failsafe.NewExecutor[*http.Response](rp).Get(func() (*http.Response, error) {
		calls++
		if calls == 1 {
			return &http.Response{StatusCode: 500, Header: http.Header{}}, nil // no Retry-After: no computed delay
		}
		if calls == 2 {
			return &http.Response{StatusCode: code, Header: http.Header{"Retry-After": []string{secs}}}, nil
		}
		return &http.Response{StatusCode: 200, Header: http.Header{}}, nil
	})
	zzvrt.Assert(err == nil, "http: the final successful response is returned")
	zzvrt.Assert(resp.StatusCode == 200, "http: the response finally returned is the last attempt's")
	zzvrt.Assert(calls == 3, "http: 429 and 5xx except 501 are retried")
	zzvrt.Assert(len(scheduled) == 2, "http: one scheduled retry per retryable response")
	if len(scheduled) == 2 {
		zzvrt.Assert(scheduled[0] == 0, "http: no delay is computed without a Retry-After header")
		zzvrt.Assert(scheduled[1] >= want, "http: the retry waits at least the Retry-After given in seconds")
	}
}

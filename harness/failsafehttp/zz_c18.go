//go:build verif

package failsafehttp

import (
	"bytes"
	"context"
	"io"
	"net/http"
	"net/url"
	"time"

	"github.com/failsafe-go/failsafe-go"
	"github.com/failsafe-go/failsafe-go/hedgepolicy"
	"github.com/failsafe-go/failsafe-go/internal/zzvrt"
)

type zzAttempt struct {
	failsafe.ExecutionAttempt[*http.Response]
	last *http.Response
}

func (a zzAttempt) LastResult() *http.Response { return a.last }

var zzRetryAfter = []string{"", "0", "1", "120", "abc", "-5", "1.5", " 7", "99999999999999999999"}
var zzRetryAfterSecs = []int64{-1, 0, 1, 120, -1, -5, -1, -1, -1} // what strconv.Atoi accepts (-1 = does not parse)

// H18b: the Retry-After delay: seconds*1s when the header parses and the status is 429 or 503, else -1.
func ZZ_H18b_RetryAfter() {
	code := zzvrt.Int("status")
	zzvrt.Assume(code >= 100)
	zzvrt.Assume(code < 600)
	hi := zzvrt.Choose("retry-after", len(zzRetryAfter)+1)
	resp := &http.Response{StatusCode: code, Header: http.Header{}}
	if hi < len(zzRetryAfter) {
		resp.Header["Retry-After"] = []string{zzRetryAfter[hi]}
	}
	got := DelayFunc(zzAttempt{last: resp})
	want := time.Duration(-1)
	if hi < len(zzRetryAfter) {
		if zzRetryAfter[hi] == "-5" || zzRetryAfterSecs[hi] >= 0 {
			if code == 429 {
				want = time.Duration(zzRetryAfterSecs[hi]) * time.Second
			}
			if code == 503 {
				want = time.Duration(zzRetryAfterSecs[hi]) * time.Second
			}
		}
	}
	zzvrt.Assert(got == want, "http: Retry-After in seconds is used as the delay for 429/503, otherwise no delay is computed")
	zzvrt.Assert(DelayFunc(zzAttempt{last: nil}) == -1, "http: no delay without a previous response")
}

// H18a: retryable statuses through a real retry policy: 429 and 5xx except 501 are retried, nothing else.
func ZZ_H18a_RetryableStatus() {
	code := zzvrt.Int("status")
	zzvrt.Assume(code >= 100)
	zzvrt.Assume(code < 600)
	rp := RetryPolicyBuilder().WithMaxRetries(1).Build()
	calls := 0
	resp, err := failsafe.NewExecutor[*http.Response](rp).Get(func() (*http.Response, error) {
		calls++
		return &http.Response{StatusCode: code, Header: http.Header{}}, nil
	})
	retryable := false
	if code == 429 {
		retryable = true
	}
	if code >= 500 {
		if code != 501 {
			retryable = true
		}
	}
	if retryable {
		zzvrt.Assert(calls == 2, "http: 429 and 5xx except 501 are retried")
		zzvrt.Assert(err != nil, "http: exhausted retries are reported")
	} else {
		zzvrt.Assert(calls == 1, "http: other statuses are not retried")
		zzvrt.Assert(err == nil, "http: a non-retryable response is returned as is")
		zzvrt.Assert(resp.StatusCode == code, "http: the response finally returned is the last attempt's")
	}
}

// H18d: through the real retry policy: the wait scheduled after a 429/503 with Retry-After: n is at
// least n seconds, computed from the response of the attempt that just failed.
func ZZ_H18d_RetryAfterScheduled() {
	code := []int{429, 503}[zzvrt.Choose("status", 2)]
	secs := []string{"1", "2", "120"}[zzvrt.Choose("retry-after", 3)]
	want := map[string]time.Duration{"1": time.Second, "2": 2 * time.Second, "120": 120 * time.Second}[secs]
	var scheduled []time.Duration
	rp := RetryPolicyBuilder().WithMaxRetries(2).OnRetryScheduled(func(e failsafe.ExecutionScheduledEvent[*http.Response]) {
		scheduled = append(scheduled, e.Delay)
	}).Build()
	calls := 0
	resp, err := failsafe.NewExecutor[*http.Response](rp).Get(func() (*http.Response, error) {
		calls++
		if calls == 1 {
			return &http.Response{StatusCode: 500, Header: http.Header{}}, nil // no Retry-After: no computed delay
		}
		if calls == 2 {
			return &http.Response{StatusCode: code, Header: http.Header{"Retry-After": []string{secs}}}, nil
		}
		return &http.Response{StatusCode: 200, Header: http.Header{}}, nil
	})
	zzvrt.Assert(err == nil, "http: the final successful response is returned")
	zzvrt.Assert(resp.StatusCode == 200, "http: the response finally returned is the last attempt's")
	zzvrt.Assert(calls == 3, "http: 429 and 5xx except 501 are retried")
	zzvrt.Assert(len(scheduled) == 2, "http: one scheduled retry per retryable response")
	if len(scheduled) == 2 {
		zzvrt.Assert(scheduled[0] == 0, "http: no delay is computed without a Retry-After header")
		zzvrt.Assert(scheduled[1] >= want, "http: the retry waits at least the Retry-After given in seconds")
	}
}

type zzCtxKey struct{}

// zzRespBody is the stub transport's response body. It follows net/http's documented contract for the
// request context ("the context controls the entire lifetime of a request and its response: obtaining a
// connection, sending the request, and reading the response headers and body"): once the context of the
// request that produced it is done, reads fail with the context's error.
type zzRespBody struct {
	ctx    context.Context
	left   int
	closed int
}

func (b *zzRespBody) Read(p []byte) (int, error) {
	if err := b.ctx.Err(); err != nil {
		return 0, err
	}
	if b.left == 0 {
		return 0, io.EOF
	}
	b.left--
	p[0] = 'x'
	return 1, nil
}
func (b *zzRespBody) Close() error { b.closed++; return nil }

// zzSeeker is a caller-supplied io.ReadSeeker body (not a bytes type).
type zzSeeker struct {
	data []byte
	pos  int
}

func (s *zzSeeker) Read(p []byte) (int, error) {
	if s.pos >= len(s.data) {
		return 0, io.EOF
	}
	p[0] = s.data[s.pos]
	s.pos++
	return 1, nil
}
func (s *zzSeeker) Seek(off int64, whence int) (int64, error) { s.pos = int(off); return off, nil }
func (s *zzSeeker) Close() error                               { return nil }

// zzPlainReader is a caller-supplied one-shot io.Reader body.
type zzPlainReader struct {
	data []byte
	pos  int
}

func (s *zzPlainReader) Read(p []byte) (int, error) {
	if s.pos >= len(s.data) {
		return 0, io.EOF
	}
	p[0] = s.data[s.pos]
	s.pos++
	return 1, nil
}
func (s *zzPlainReader) Close() error { return nil }

// H18e: doRequest (the common core of the failsafe RoundTripper and Request) against a stub transport:
// every attempt gets the original method, URL and headers and the complete original body, runs under a context
// that carries the caller's values and is live; the response finally returned is the last attempt's and its
// body can be read to the end after doRequest returned.
func ZZ_H18e_DoRequest() {
	n := zzvrt.Choose("body-len", 3)
	orig := make([]byte, n)
	for i := range orig {
		orig[i] = zzvrt.Byte("body-byte")
	}
	var body io.ReadCloser
	switch zzvrt.Choose("body-kind", 5) {
	case 0:
		body = nil
		orig = nil
	case 1:
		body = io.NopCloser(bytes.NewBuffer(append([]byte(nil), orig...)))
	case 2:
		body = io.NopCloser(bytes.NewReader(orig))
	case 3:
		body = &zzSeeker{data: orig}
	case 4:
		body = &zzPlainReader{data: orig}
	}
	var callerCtx context.Context = context.Background()
	callerCancel := func() {}
	callerKind := zzvrt.Choose("caller-ctx", 3)
	switch callerKind {
	case 1:
		callerCtx = context.WithValue(context.Background(), zzCtxKey{}, 42)
	case 2:
		callerCtx, callerCancel = context.WithCancel(context.WithValue(context.Background(), zzCtxKey{}, 42))
	}
	u := &url.URL{Scheme: "http", Host: "example.test", Path: "/p"}
	req := (&http.Request{Method: "POST", URL: u, Header: http.Header{"X-A": []string{"1"}}, Body: body}).WithContext(callerCtx)

	// executor kinds: plain; with its own (cancellable) context, as with WithContext / async / an enclosing Timeout or hedge
	rp := RetryPolicyBuilder().WithMaxRetries(2).Build()
	ex := failsafe.NewExecutor[*http.Response](rp)
	exCancel := func() {}
	execHasCtx := zzvrt.Choose("executor-ctx", 2) == 1
	if execHasCtx {
		var ectx context.Context
		ectx, exCancel = context.WithCancel(context.Background())
		ex = ex.WithContext(ectx)
	}
	failures := zzvrt.Choose("retryable-responses", 3) // 0..2 attempts answer 503 before the 200
	var bodies []*zzRespBody
	attempts := 0
	reqFn := func(r *http.Request) (*http.Response, error) {
		attempts++
		zzvrt.Assert(r.Method == "POST", "http: every attempt is sent with the original method")
		zzvrt.Assert(r.URL == u, "http: every attempt is sent to the original URL")
		zzvrt.Assert(len(r.Header["X-A"]) == 1 && r.Header["X-A"][0] == "1", "http: every attempt is sent with the original headers")
		var got []byte
		if r.Body != nil {
			buf := make([]byte, 1)
			for {
				k, err := r.Body.Read(buf)
				if k > 0 {
					got = append(got, buf[0])
				}
				if err != nil {
					break
				}
			}
		}
		zzvrt.Assert(len(got) == len(orig), "http: every attempt is sent with the complete original body")
		if len(got) == len(orig) {
			for i := range got {
				zzvrt.Assert(got[i] == orig[i], "http: every attempt is sent with the complete original body")
			}
		}
		actx := r.Context()
		zzvrt.Assert(actx.Err() == nil, "http: the attempt's context is live while the caller's and the execution's are")
		if callerKind != 0 {
			zzvrt.Assert(actx.Value(zzCtxKey{}) == 42, "http: the attempt's context carries the caller's context values")
		}
		rb := &zzRespBody{ctx: actx, left: 2}
		bodies = append(bodies, rb)
		code := 200
		if attempts <= failures {
			code = 503
		}
		return &http.Response{StatusCode: code, Header: http.Header{}, Body: rb}, nil
	}
	resp, err := doRequest(req, ex, reqFn)
	zzvrt.Assert(err == nil, "http: the final successful response is returned")
	zzvrt.Assert(attempts == failures+1, "http: 429 and 5xx except 501 are retried")
	if err == nil && resp != nil {
		zzvrt.Assert(resp.StatusCode == 200, "http: the response finally returned is the last attempt's")
		zzvrt.Assert(resp.Body == io.ReadCloser(bodies[len(bodies)-1]), "http: the response finally returned is the last attempt's")
		// the caller now reads the body to the end
		buf := make([]byte, 1)
		read := 0
		var rerr error
		for {
			k, e := resp.Body.Read(buf)
			read += k
			if e != nil {
				rerr = e
				break
			}
		}
		// (separate labels per context configuration: the merged-context case is known finding F-C18-2, any other failure is new)
		lab := "http-body: the returned response's body can be read to the end"
		if callerKind != 0 && execHasCtx {
			lab = "http-body: the returned response's body can be read to the end (request and executor both carry a context)"
		}
		zzvrt.Assert(rerr == io.EOF, lab)
		zzvrt.Assert(read == 2, lab)
		for i := 0; i+1 < len(bodies); i++ {
			zzvrt.Assert(bodies[i].closed >= 1, "http-close: responses obtained but not returned (retried attempts) are closed")
		}
		zzvrt.Assert(bodies[len(bodies)-1].closed == 0, "http-close: the returned response is not closed by the adapter")
	}
	callerCancel()
	exCancel()
	zzvrt.Reach("dorequest-done")
}

// H18g: doRequest under a hedge policy: two attempts are in flight at once and read their request bodies interleaved
// (the first attempt reads one byte, waits, and reads the rest after the hedge has read everything). Each attempt
// must still see the complete original body.
func ZZ_H18g_HedgedBody() {
	orig := []byte{zzvrt.Byte("body-byte"), zzvrt.Byte("body-byte"), zzvrt.Byte("body-byte")}
	var body io.ReadCloser
	kind := zzvrt.Choose("body-kind", 4)
	switch kind {
	case 0:
		body = io.NopCloser(bytes.NewBuffer(append([]byte(nil), orig...)))
	case 1:
		body = io.NopCloser(bytes.NewReader(orig))
	case 2:
		body = &zzPlainReader{data: orig}
	case 3:
		body = &zzSeeker{data: orig}
	}
	D := zzvrt.Duration("hedgeDelay")
	zzvrt.Assume(D >= 1)
	zzvrt.Assume(D < 1<<30)
	d := zzvrt.Duration("firstAttemptPause")
	zzvrt.Assume(d >= 0)
	zzvrt.Assume(d < 1<<30)
	u := &url.URL{Scheme: "http", Host: "example.test", Path: "/p"}
	req := &http.Request{Method: "POST", URL: u, Header: http.Header{}, Body: body}
	ex := failsafe.NewExecutor[*http.Response](hedgepolicy.BuilderWithDelay[*http.Response](D).Build())
	lab := "http: every attempt is sent with the complete original body (also when attempts overlap)"
	if kind == 3 {
		lab = "http: every attempt is sent with the complete original body (also when attempts overlap; caller-supplied io.ReadSeeker)"
	}
	reqFn := func(r *http.Request) (*http.Response, error) {
		k := zzvrt.CtrAdd("attempts", 1)
		var got []byte
		buf := make([]byte, 1)
		n, err := r.Body.Read(buf)
		if n > 0 {
			got = append(got, buf[0])
		}
		if k == 1 {
			zzvrt.Sleep(d) // the hedge may start and read its whole body meanwhile
		}
		for err == nil {
			n, err = r.Body.Read(buf)
			if n > 0 {
				got = append(got, buf[0])
			}
		}
		zzvrt.Assert(len(got) == len(orig), lab)
		if len(got) == len(orig) {
			for i := range got {
				zzvrt.Assert(got[i] == orig[i], lab)
			}
		}
		return &http.Response{StatusCode: 200, Header: http.Header{}, Body: &zzRespBody{ctx: context.Background(), left: 0}}, nil
	}
	resp, err := doRequest(req, ex, reqFn)
	zzvrt.Quiesce()
	zzvrt.Assert(err == nil, "http: the final successful response is returned")
	zzvrt.Assert(resp != nil, "http: the final successful response is returned")
	zzvrt.Assert(zzvrt.CtrGet("attempts") <= 2, "http: at most maxHedges+1 attempts")
	zzvrt.Reach("hedged-body-done")
}

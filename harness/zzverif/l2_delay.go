//go:build verif

package zzverif

import (
	"context"
	"errors"
	"time"

	"github.com/failsafe-go/failsafe-go/ratelimiter"

	"github.com/failsafe-go/failsafe-go"
	"github.com/failsafe-go/failsafe-go/internal/zzvrt"
	"github.com/failsafe-go/failsafe-go/retrypolicy"
)

// S13h: the next attempt never starts before the scheduled delay has elapsed (and, with nothing
// else going on, starts exactly then); the max duration is honoured (C02).
func ZZ_S13h_RetryDelay() {
	D := symDur("delay", 0, 40)
	maxDur := time.Duration(0)
	if zzvrt.Choose("with-max-duration", 2) == 1 {
		maxDur = symDur("maxDuration", 1, 40)
	}
	d := symDur("fnDuration", 0, 40)
	b := retrypolicy.Builder[int]().WithMaxRetries(2).WithDelay(D)
	if maxDur != 0 {
		b = b.WithMaxDuration(maxDur)
	}
	rp := b.OnRetryScheduled(func(e failsafe.ExecutionScheduledEvent[int]) {
		zzvrt.CellSet("scheduledAt", zzvrt.Now())
		zzvrt.CellSet("scheduledDelay", int64(e.Delay))
		zzvrt.CtrAdd("scheduled", 1)
		zzvrt.Assert(e.Delay >= 0, "delay: non-negative")
		zzvrt.Assert(e.Delay <= D, "delay: fixed delay, possibly shortened by the remaining max duration")
		if maxDur != 0 {
			zzvrt.Assert(zzvrt.Now()-zzvrt.CellGet("execStart")+int64(e.Delay) <= int64(maxDur), "delay: never extends past the remaining max duration")
		}
	}).Build()
	start := zzvrt.Now()
	zzvrt.CellSet("execStart", start)
	failsafe.NewExecutor[int](rp).GetWithExecution(func(e failsafe.Execution[int]) (int, error) {
		k := zzvrt.CtrAdd("starts", 1)
		zzvrt.Assert(k <= 3, "retry: at most maxRetries+1 attempts")
		if k > 1 {
			zzvrt.Assert(zzvrt.CtrGet("scheduled") == k-1, "events: OnRetryScheduled once per retry decided")
			zzvrt.Assert(zzvrt.Now()-zzvrt.CellGet("scheduledAt") >= zzvrt.CellGet("scheduledDelay"), "delay: the next attempt never starts before the scheduled delay has elapsed")
			zzvrt.Assert(zzvrt.Now()-zzvrt.CellGet("scheduledAt") == zzvrt.CellGet("scheduledDelay"), "delay: the next attempt starts when the scheduled delay has elapsed")
			if maxDur != 0 {
				zzvrt.Assert(zzvrt.CellGet("lastFailAt")-start <= int64(maxDur), "retry: no retry after a failure handled once the max duration has elapsed")
			}
		}
		zzvrt.Sleep(d)
		zzvrt.CellSet("lastFailAt", zzvrt.Now())
		return 0, errA
	})
	zzvrt.Quiesce()
	zzvrt.Assert(zzvrt.CtrGet("starts") <= 3, "retry: at most maxRetries+1 attempts")
	zzvrt.Assert(zzvrt.ArmedTimers() == 0, "leak: no library timer left armed after retries")
	zzvrt.Reach("retry-delay-done")
}

// S05f: a blocking acquire does not succeed before its wait has elapsed (smooth and bursty), and
// returns the context error instead when cancelled earlier.
func ZZ_S05f_BlockingAcquire() {
	const I = 1000
	bursty := zzvrt.Choose("bursty", 2) == 1
	var rl ratelimiter.RateLimiter[int]
	if bursty {
		rl = ratelimiter.Bursty[int](1, I)
	} else {
		rl = ratelimiter.SmoothWithMaxRate[int](I)
	}
	t0 := zzvrt.Now() // the limiter's stopwatch starts now
	off := symDur("firstAt", 0, 30)
	zzvrt.Sleep(off)
	zzvrt.Assert(rl.AcquirePermit(context.Background()) == nil, "limiter: the first permit needs no wait")
	t1 := zzvrt.Now() - t0
	zzvrt.Assert(t1 == int64(off), "limiter: the first permit needs no wait")
	d := symDur("gap", 0, 30)
	zzvrt.Sleep(d)
	cancelAt := symDur("cancelAfter", 0, 30)
	ctx, cancel := context.WithCancel(context.Background())
	if zzvrt.Choose("cancelling", 2) == 1 {
		go func() {
			zzvrt.Sleep(cancelAt)
			cancel()
		}()
	}
	req := zzvrt.Now() - t0
	err := rl.AcquirePermit(ctx)
	got := zzvrt.Now() - t0
	// the slot / period after the one the first permit used
	nextFree := (t1/I + 1) * I
	if err == nil {
		if req < nextFree {
			zzvrt.Assert(got >= nextFree, "limiter: a blocking acquire does not succeed before its wait has elapsed")
			zzvrt.Assert(got == nextFree, "limiter: a blocking acquire succeeds as soon as its wait has elapsed")
		} else {
			zzvrt.Assert(got == req, "limiter: no wait when the slot is free")
		}
	} else {
		zzvrt.Assert(err == context.Canceled, "limiter: a cancelled blocking acquire returns the context error")
		if req < nextFree {
			zzvrt.Assert(got <= nextFree, "limiter: a cancelled blocking acquire returns at the cancellation, not later than its wait")
		} else {
			zzvrt.Assert(got == req, "limiter: a cancelled blocking acquire returns at the cancellation, not later than its wait")
		}
	}
	cancel()
	zzvrt.Quiesce()
	zzvrt.Assert(zzvrt.ArmedTimers() == 0, "leak: no library timer left armed after a blocking acquire")
	zzvrt.Reach("blocking-acquire-done")
}

// S02d: two concurrent executions sharing one retry policy: each has its own full budget.
func ZZ_S02d_ConcurrentBudgets() {
	rp := retrypolicy.Builder[int]().WithMaxRetries(1).Build()
	ex := failsafe.NewExecutor[int](rp)
	res := make([]failsafe.ExecutionResult[int], 2)
	for i := 0; i < 2; i++ {
		k := i
		d := symDur("d", 0, 30)
		succeedSecond := zzvrt.Choose("second-attempt-succeeds", 2) == 1
		res[k] = ex.GetWithExecutionAsync(func(e failsafe.Execution[int]) (int, error) {
			n := zzvrt.CtrAdd(idx("calls", k), 1)
			zzvrt.Assert(n <= 2, "retry: at most maxRetries+1 attempts per execution")
			zzvrt.Assert(e.Attempts() == n, "stats: Attempts is per execution")
			zzvrt.Sleep(d)
			if n == 2 && succeedSecond {
				return 7, nil
			}
			return 0, errA
		})
		zzvrt.CellSet(idx("succeed", k), b2i(succeedSecond))
	}
	for k := 0; k < 2; k++ {
		v, err := res[k].Get()
		zzvrt.Assert(zzvrt.CtrGet(idx("calls", k)) == 2, "retry: each execution sharing the policy gets its own full budget")
		if zzvrt.CellGet(idx("succeed", k)) == 1 {
			zzvrt.Assert(err == nil, "retry: stops at the first success")
			zzvrt.Assert(v == 7, "retry: stops at the first success")
		} else {
			zzvrt.Assert(errors.Is(err, retrypolicy.ErrExceeded), "retry: gives up with ExceededError")
		}
	}
	zzvrt.Quiesce()
	zzvrt.Reach("concurrent-budgets-done")
}

// S02e: Retry_outer(max 2)(Retry_inner(max 3, max duration M)(fn sleeping d, always failing)): the inner policy gives up
// once — by count or because M elapsed — reports that once, and from then on stays out of the way for the rest of the
// execution (its budget belongs to the execution; pinned by the repository's TestNestedRetryPoliciesWhereInnerIsExceeded)
// while the outer policy spends its own budget: 2 more invocations.
func ZZ_S02e_NestedMaxDuration() {
	M := symDur("maxDuration", 1, 40)
	d := symDur("fnDuration", 0, 40)
	inner := retrypolicy.Builder[int]().WithMaxRetries(3).WithMaxDuration(M).
		OnRetriesExceeded(func(e failsafe.ExecutionEvent[int]) {
			zzvrt.CtrAdd("innerExceeded", 1)
			zzvrt.CtrSet("innerAttempts", zzvrt.CtrGet("starts"))
		}).
		OnRetry(func(e failsafe.ExecutionEvent[int]) { zzvrt.CtrAdd("innerRetries", 1) }).Build()
	outer := retrypolicy.Builder[int]().WithMaxRetries(2).
		OnRetriesExceeded(func(e failsafe.ExecutionEvent[int]) { zzvrt.CtrAdd("outerExceeded", 1) }).
		OnRetry(func(e failsafe.ExecutionEvent[int]) { zzvrt.CtrAdd("outerRetries", 1) }).Build()
	start := zzvrt.Now()
	_, err := failsafe.NewExecutor[int](outer, inner).GetWithExecution(func(e failsafe.Execution[int]) (int, error) {
		k := zzvrt.CtrAdd("starts", 1)
		zzvrt.Assert(k <= 6, "retry: nested budgets bound the invocations (4 inner + 2 outer)")
		zzvrt.Assert(e.Attempts() == k, "stats: Attempts = 1 + retries started")
		zzvrt.Assert(e.Retries() == k-1, "stats: Retries = retries started")
		if zzvrt.CtrGet("innerExceeded") == 0 && k > 1 {
			zzvrt.Assert(zzvrt.CellGet("lastFailAt")-start <= int64(M), "retry: no retry after a failure handled once the max duration has elapsed")
		}
		zzvrt.Sleep(d)
		zzvrt.CellSet("lastFailAt", zzvrt.Now())
		return 0, errA
	})
	zzvrt.Quiesce()
	zzvrt.Assert(errors.Is(err, retrypolicy.ErrExceeded), "retry: gives up with ExceededError")
	zzvrt.Assert(zzvrt.CtrGet("innerExceeded") == 1, "events: OnRetriesExceeded at most once per policy and execution, exactly when it gives up")
	zzvrt.Assert(zzvrt.CtrGet("outerExceeded") == 1, "events: OnRetriesExceeded at most once per policy and execution, exactly when it gives up")
	zzvrt.Assert(zzvrt.CtrGet("outerRetries") == 2, "retry: the outer policy spends its own budget after the inner one gave up")
	zzvrt.Assert(zzvrt.CtrGet("starts") == zzvrt.CtrGet("innerAttempts")+2, "retry: an inner policy that gave up is not consulted again within the execution")
	zzvrt.Assert(zzvrt.CtrGet("innerRetries") == zzvrt.CtrGet("innerAttempts")-1, "events: OnRetry once per retry actually started")
	zzvrt.Reach("nested-max-duration-done")
}

//go:build verif

package zzverif

import (
	"time"

	"github.com/failsafe-go/failsafe-go"
	"github.com/failsafe-go/failsafe-go/internal/zzvrt"
	"github.com/failsafe-go/failsafe-go/retrypolicy"
)

// S13h: the next attempt never starts before the scheduled delay has elapsed (and, with nothing
// else going on, starts exactly then); the max duration is honoured (C02).
func ZZ_S13h_RetryDelay() {
	D := symDur("delay", 0, 40)
	maxDur := time.Duration(0)
	if zzvrt.Choose("with-max-duration", 2) == 1 {
		maxDur = symDur("maxDuration", 1, 40)
	}
	d := symDur("fnDuration", 0, 40)
	b := retrypolicy.Builder[int]().WithMaxRetries(2).WithDelay(D)
	if maxDur != 0 {
		b = b.WithMaxDuration(maxDur)
	}
	rp := b.OnRetryScheduled(func(e failsafe.ExecutionScheduledEvent[int]) {
		zzvrt.CellSet("scheduledAt", zzvrt.Now())
		zzvrt.CellSet("scheduledDelay", int64(e.Delay))
		zzvrt.CtrAdd("scheduled", 1)
		zzvrt.Assert(e.Delay >= 0, "delay: non-negative")
		zzvrt.Assert(e.Delay <= D, "delay: fixed delay, possibly shortened by the remaining max duration")
	}).Build()
	start := zzvrt.Now()
	failsafe.NewExecutor[int](rp).GetWithExecution(func(e failsafe.Execution[int]) (int, error) {
		k := zzvrt.CtrAdd("starts", 1)
		if k > 1 {
			zzvrt.Assert(zzvrt.CtrGet("scheduled") == k-1, "events: OnRetryScheduled once per retry decided")
			zzvrt.Assert(zzvrt.Now()-zzvrt.CellGet("scheduledAt") >= zzvrt.CellGet("scheduledDelay"), "delay: the next attempt never starts before the scheduled delay has elapsed")
			zzvrt.Assert(zzvrt.Now()-zzvrt.CellGet("scheduledAt") == zzvrt.CellGet("scheduledDelay"), "delay: the next attempt starts when the scheduled delay has elapsed")
			if maxDur != 0 {
				zzvrt.Assert(zzvrt.CellGet("lastFailAt")-start <= int64(maxDur), "retry: no retry after a failure handled once the max duration has elapsed")
			}
		}
		zzvrt.Sleep(d)
		zzvrt.CellSet("lastFailAt", zzvrt.Now())
		return 0, errA
	})
	zzvrt.Quiesce()
	zzvrt.Assert(zzvrt.CtrGet("starts") <= 3, "retry: at most maxRetries+1 attempts")
	zzvrt.Assert(zzvrt.ArmedTimers() == 0, "leak: no library timer left armed after retries")
	zzvrt.Reach("retry-delay-done")
}

//go:build verif

package zzverif

import (
	"github.com/failsafe-go/failsafe-go/cachepolicy"
	"sync"
	"context"
	"errors"
	"time"

	"github.com/failsafe-go/failsafe-go"
	"github.com/failsafe-go/failsafe-go/bulkhead"
	"github.com/failsafe-go/failsafe-go/circuitbreaker"
	"github.com/failsafe-go/failsafe-go/fallback"
	"github.com/failsafe-go/failsafe-go/hedgepolicy"
	"github.com/failsafe-go/failsafe-go/internal/zzvrt"
	"github.com/failsafe-go/failsafe-go/ratelimiter"
	"github.com/failsafe-go/failsafe-go/retrypolicy"
	"github.com/failsafe-go/failsafe-go/timeout"
)

func idx(name string, i int) string { return name + string(rune('0'+i)) }

// ---------------------------------------------------------------------------------------------
// S06a: m+1 concurrent async executions through one bulkhead, symbolic holding times, optional
// symbolic max wait, one execution cancelled through its context at a symbolic instant.
func ZZ_S06a_Bulkhead() {
	m := 1 + zzvrt.Choose("m-1", zzvrt.Param("max_m", 2))
	var mw time.Duration
	if zzvrt.Choose("waits", 2) == 1 {
		mw = symDur("maxWait", 1, 40)
	}
	bh := bulkhead.Builder[int](uint(m)).WithMaxWaitTime(mw).OnFull(func(e failsafe.ExecutionEvent[int]) { zzvrt.CtrAdd("full", 1) }).Build()
	held := 0
	if zzvrt.Choose("standalone-holder", 2) == 1 {
		zzvrt.Assert(bh.TryAcquirePermit(), "bulkhead: a fresh bulkhead has a free permit")
		held = 1
		zzvrt.CtrAdd("inflight", 1)
	}
	n := m + 1
	ctx, cancel := context.WithCancel(context.Background())
	cancelling := zzvrt.Choose("cancel-first", 2) == 1
	if cancelling {
		c := symDur("cancelAt", 0, 40)
		go func() {
			zzvrt.Sleep(c)
			cancel()
		}()
	}
	res := make([]failsafe.ExecutionResult[int], n)
	for i := 0; i < n; i++ {
		k := i
		d := symDur("d", 0, 40)
		ex := failsafe.NewExecutor[int](bh)
		if k == 0 {
			ex = ex.WithContext(ctx)
		}
		res[k] = ex.GetWithExecutionAsync(func(e failsafe.Execution[int]) (int, error) {
			now := zzvrt.CtrAdd("inflight", 1)
			zzvrt.Assert(now <= m, "bulkhead: never more than maxConcurrency executions in progress (standalone permits included)")
			zzvrt.CtrAdd(idx("ran", k), 1)
			zzvrt.Sleep(d)
			zzvrt.CtrAdd("inflight", -1)
			return 10 + k, nil
		})
	}
	admitted := 0
	for i := 0; i < n; i++ {
		v, err := res[i].Get()
		ran := zzvrt.CtrGet(idx("ran", i))
		if err == nil {
			zzvrt.Assert(v == 10+i, "bulkhead: admitted execution returns the function's result")
			zzvrt.Assert(ran == 1, "bulkhead: admitted execution ran the function once")
			admitted++
		} else if errors.Is(err, bulkhead.ErrFull) {
			zzvrt.CtrAdd("errFull", 1)
			zzvrt.Assert(ran == 0, "bulkhead: a refused execution never runs the function")
		} else {
			zzvrt.Assert(i == 0, "bulkhead: only the execution with a cancellable context can fail otherwise")
			zzvrt.Assert(cancelling, "bulkhead: only the execution with a cancellable context can fail otherwise")
			zzvrt.Assert(errors.Is(err, context.Canceled), "bulkhead: cancelled while waiting or running reports the context error")
		}
	}
	zzvrt.Quiesce()
	zzvrt.Assert(zzvrt.CtrGet("full") == zzvrt.CtrGet("errFull"), "events: OnFull fires exactly for the executions rejected as full")
	if mw == 0 && held == 0 && !cancelling {
		zzvrt.Assert(admitted >= 1, "bulkhead: with free permits somebody is admitted")
	}
	free := 0
	for bh.TryAcquirePermit() {
		free++
	}
	zzvrt.Assert(free == m-held, "bulkhead: after all executions finish exactly maxConcurrency permits are available again")
	zzvrt.Assert(zzvrt.Live() == 0, "leak: no library goroutine left after bulkhead executions")
	zzvrt.Assert(zzvrt.ArmedTimers() == 0, "leak: no library timer left armed after bulkhead executions")
	cancel()
	zzvrt.Reach("bulkhead-done")
}

// ---------------------------------------------------------------------------------------------
// S09a: hedge policy, maxHedges 1..2, symbolic delay and attempt durations, cancel conditions.
func ZZ_S09a_Hedge() {
	H := 1 + zzvrt.Choose("maxHedges-1", zzvrt.Param("max_hedges", 2))
	// a delay function returning a different symbolic delay for each hedge
	Ds := make([]time.Duration, H+1)
	sumD := make([]int64, H+2)
	for i := 0; i <= H; i++ {
		Ds[i] = symDur("D", 1, 30)
		sumD[i+1] = sumD[i] + int64(Ds[i])
	}
	D := Ds[0]
	_ = D
	cancelOnAny := zzvrt.Choose("cancel-on-any-result", 2) == 1
	b := hedgepolicy.BuilderWithDelayFunc[int](func(e failsafe.ExecutionAttempt[int]) time.Duration {
		k := zzvrt.CtrAdd("delayCalls", 1) - 1
		if k > H {
			k = H
		}
		return Ds[k]
	}).WithMaxHedges(H).OnHedge(func(e failsafe.ExecutionEvent[int]) {
		zzvrt.CtrAdd("hedges", 1)
		zzvrt.Assert(e.IsHedge(), "hedge: OnHedge event describes a hedge")
	})
	if !cancelOnAny {
		b = b.CancelOnResult(100) // only attempt 0's result is accepted early
	}
	hp := b.Build()
	start := zzvrt.Now()
	durs := make([]time.Duration, H+1)
	for i := range durs {
		durs[i] = symDur("d", 0, 30)
	}
	infos := make([]failsafe.Execution[int], H+1)
	r, err := failsafe.NewExecutor[int](hp).GetWithExecution(func(e failsafe.Execution[int]) (int, error) {
		k := zzvrt.CtrAdd("starts", 1) - 1
		if k <= H {
			infos[k] = e
		}
		zzvrt.Assert(k <= H, "hedge: at most maxHedges+1 attempts")
		if zzvrt.CtrGet("returned") != 0 {
			// Only possible when the hedge timer and the accepted result became ready at the same instant and the
			// coordinator's select took the timer first: the attempt was launched before the result was dequeued
			// but only gets to run after the caller has returned. It must then find itself cancelled.
			zzvrt.Assert(e.IsCanceled(), "hedge: an attempt that only gets to run after the result was returned finds itself cancelled")
			zzvrt.Assert(zzvrt.Now()-start == sumD[k], "hedge: no attempt is launched after a result has been accepted (except in the timer/result tie)")
		}
		zzvrt.Assert(zzvrt.Now()-start >= sumD[k], "hedge: hedge k never starts before the first k hedge delays have elapsed")
		zzvrt.Assert(e.IsHedge() == (k > 0), "stats: IsHedge agrees with the attempt being a hedge")
		zzvrt.Assert(e.Attempts() >= k+1, "stats: Attempts counts the hedges started so far")
		zzvrt.Assert(e.Hedges() >= k, "stats: Hedges counts the hedges started so far")
		zzvrt.Assert(e.Attempts() == 1+e.Hedges(), "stats: Attempts = 1 + hedges (no retries here)")
		zzvrt.CellSet(idx("startAt", k), zzvrt.Now())
		zzvrt.Sleep(durs[k])
		zzvrt.CellSet(idx("cancelledAtEnd", k), b2i(e.IsCanceled()))
		zzvrt.CellSet(idx("doneAt", k), zzvrt.Now())
		zzvrt.CtrAdd(idx("finished", k), 1)
		return 100 + k, nil
	})
	zzvrt.CtrAdd("returned", 1)
	end := zzvrt.Now()
	// at the moment it returns: every other started attempt has been cancelled, the winner has not
	for k := 0; k <= H; k++ {
		if infos[k] != nil && err == nil {
			if k == r-100 {
				zzvrt.Assert(!infos[k].IsCanceled(), "hedge: the winning attempt has not been cancelled at return")
			} else {
				zzvrt.Assert(infos[k].IsCanceled(), "hedge: every other started attempt has been cancelled at return")
			}
		}
	}
	zzvrt.Assert(err == nil, "hedge: result produced by one of the attempts")
	starts := zzvrt.CtrGet("starts")
	zzvrt.Assert(r >= 100, "hedge: result produced by one of the attempts")
	zzvrt.Assert(r < 100+starts, "hedge: result produced by an attempt that was started")
	win := r - 100
	zzvrt.Assert(zzvrt.CtrGet(idx("finished", win)) == 1, "hedge: the winning attempt had really finished")
	zzvrt.Assert(zzvrt.CellGet(idx("doneAt", win)) <= end, "hedge: the winning attempt had really finished")
	zzvrt.Assert(zzvrt.CellGet(idx("cancelledAtEnd", win)) == 0, "hedge: the winning attempt was not cancelled")
	if cancelOnAny || win == 0 {
		// accepted as soon as produced: returned at the instant the winner finished
		zzvrt.Assert(end == zzvrt.CellGet(idx("doneAt", win)), "hedge: a cancel-matching result is returned as soon as it is produced")
	} else {
		// not cancel-matching: only after all maxHedges+1 attempts finished
		for k := 0; k <= H; k++ {
			zzvrt.Assert(zzvrt.CtrGet(idx("finished", k)) == 1, "hedge: a non-matching result is delivered only after all attempts finished")
		}
	}
	zzvrt.Quiesce()
	zzvrt.Assert(zzvrt.CtrGet("hedges") == zzvrt.CtrGet("starts")-1, "events: OnHedge once per hedge started")
	zzvrt.Assert(zzvrt.CtrGet("starts") <= H+1, "hedge: at most maxHedges+1 attempts")
	for k := 0; k < zzvrt.CtrGet("starts"); k++ {
		if k != win && zzvrt.CellGet(idx("doneAt", k)) > end {
			zzvrt.Assert(zzvrt.CellGet(idx("cancelledAtEnd", k)) == 1, "hedge: every other started attempt still running at return has been cancelled")
		}
	}
	zzvrt.Assert(zzvrt.Live() == 0, "leak: no library goroutine left after a hedged execution")
	zzvrt.Assert(zzvrt.ArmedTimers() == 0, "leak: no library timer left armed after a hedged execution")
	zzvrt.Reach("hedge-done")
}

func b2i(b bool) int64 {
	if b {
		return 1
	}
	return 0
}

// ---------------------------------------------------------------------------------------------
// S08: cancellation. One source per scenario, fired at a symbolic instant.
//
//	src 0: the execution's context is cancelled;  src 1: context deadline;
//	src 2: ExecutionResult.Cancel (async);        src 3: enclosing Timeout.
func ZZ_S08a_CancelRetry() {
	src := zzvrt.Param("src", -1)
	if src < 0 {
		src = zzvrt.Choose("source", 5)
	}
	D := symDur("retryDelay", 0, 30)
	c := symDur("cancelAt", 0, 30)
	withFallback := zzvrt.Choose("fallback-inside-retry", 2) == 1
	rp := retrypolicy.Builder[int]().WithMaxRetries(2).WithDelay(D).Build()
	var ps []failsafe.Policy[int]
	ctx := context.Background()
	cancel := func() {}
	switch src {
	case 0:
		ctx, cancel = context.WithCancel(ctx)
	case 4:
		var cc context.CancelCauseFunc
		ctx, cc = context.WithCancelCause(ctx)
		cancel = func() { cc(errB) } // cancelled with an application-level cause
	case 1:
		ctx, cancel = context.WithTimeout(ctx, c)
	case 3:
		ps = append(ps, timeout.With[int](c+1))
	}
	ps = append(ps, rp)
	if withFallback {
		ps = append(ps, fallback.BuilderWithFunc(func(e failsafe.Execution[int]) (int, error) {
			zzvrt.CtrAdd("fallback", 1)
			return 0, errA // the fallback itself fails: the retry keeps going
		}).Build())
	}
	t0 := zzvrt.Now()
	fn := func(e failsafe.Execution[int]) (int, error) {
		k := zzvrt.CtrAdd("starts", 1)
		if e.IsCanceled() {
			zzvrt.CtrAdd("startedCancelled", 1)
		}
		if zzvrt.CtrGet("fired") == 1 {
			zzvrt.CtrAdd("startsAfterCancel", 1)
		}
		_ = k
		return 0, errA
	}
	var err error
	var r int
	if src == 2 {
		res := failsafe.NewExecutor[int](ps...).WithContext(ctx).GetWithExecutionAsync(fn)
		zzvrt.Sleep(c)
		zzvrt.CellSet("firedAt", zzvrt.Now())
		res.Cancel()
		zzvrt.CtrAdd("fired", 1) // the cancellation has taken effect once Cancel returned
		r, err = res.Get()
	} else {
		if src == 0 || src == 4 {
			go func() {
				zzvrt.Sleep(c)
				zzvrt.CellSet("firedAt", zzvrt.Now())
				cancel()
				zzvrt.CtrAdd("fired", 1) // the cancellation has taken effect once cancel returned
			}()
		}
		r, err = failsafe.NewExecutor[int](ps...).WithContext(ctx).GetWithExecution(fn)
	}
	end := zzvrt.Now()
	zzvrt.Quiesce()
	_ = r
	completed := errors.Is(err, retrypolicy.ErrExceeded) && !errors.Is(err, context.Canceled) && !errors.Is(err, context.DeadlineExceeded) &&
		!errors.Is(err, failsafe.ErrExecutionCanceled) && !errors.Is(err, timeout.ErrExceeded)
	if completed {
		zzvrt.Assert(zzvrt.CtrGet("starts") == 3, "cancel: an execution that completed on its own made all its attempts")
		zzvrt.Reach("completed-before-cancel")
	} else {
		switch src {
		case 0, 4:
			zzvrt.Assert(errors.Is(err, context.Canceled), "cancel: context cancellation is reported as context.Canceled")
		case 1:
			zzvrt.Assert(errors.Is(err, context.DeadlineExceeded), "cancel: context deadline is reported as context.DeadlineExceeded")
		case 2:
			zzvrt.Assert(errors.Is(err, failsafe.ErrExecutionCanceled), "cancel: ExecutionResult.Cancel is reported as ErrExecutionCanceled")
		case 3:
			zzvrt.Assert(errors.Is(err, timeout.ErrExceeded), "cancel: an enclosing Timeout is reported as timeout.ErrExceeded")
		}
		if src == 0 || src == 2 || src == 4 {
			zzvrt.Assert(zzvrt.CtrGet("startsAfterCancel") <= 1, "cancel: at most one further attempt starts after the cancellation")
			// cooperating functions take no time: the execution ends at the cancellation instant, no delay is waited out
			zzvrt.Assert(end == zzvrt.CellGet("firedAt"), "cancel: completes without waiting out the remaining delay")
		}
		if src == 1 || src == 3 {
			zzvrt.Assert(end-t0 <= int64(c)+1, "cancel: completes without waiting out the remaining delay")
		}
		zzvrt.Reach("cancelled")
	}
	zzvrt.Assert(zzvrt.CtrGet("starts") <= 3, "retry: at most maxRetries+1 attempts")
	cancel()
	zzvrt.Quiesce()
	zzvrt.Assert(zzvrt.Live() == 0, "leak: no library goroutine left after a cancelled execution")
	zzvrt.Assert(zzvrt.ArmedTimers() == 0, "leak: no library timer left armed after a cancelled execution")
}

// S08b: cancellation while a rate limiter / bulkhead wait is in progress inside a retry.
func ZZ_S08b_CancelWaits() {
	kind := zzvrt.Choose("waiter", 2)
	c := symDur("cancelAt", 0, 30)
	ctx, cancel := context.WithCancel(context.Background())
	var inner failsafe.Policy[int]
	if kind == 0 {
		rl := ratelimiter.SmoothBuilderWithMaxRate[int](time.Duration(1) << 31).WithMaxWaitTime(time.Duration(1) << 33).Build()
		rl.TryAcquirePermit() // the next permit is a long wait away
		inner = rl
	} else {
		bh := bulkhead.Builder[int](1).WithMaxWaitTime(time.Duration(1) << 33).OnFull(func(e failsafe.ExecutionEvent[int]) { zzvrt.CtrAdd("onFull", 1) }).Build()
		bh.TryAcquirePermit() // full: the execution has to wait
		inner = bh
	}
	rp := retrypolicy.Builder[int]().WithMaxRetries(1).Build()
	fn := func(e failsafe.Execution[int]) (int, error) {
		zzvrt.CtrAdd("starts", 1)
		return 0, errA
	}
	var err error
	src := zzvrt.Choose("source", 3) // 0: context cancel (retry outside), 1: ExecutionResult.Cancel, 2: context deadline (waiting policy alone)
	viaResult := src == 1
	if src == 2 {
		// the caller's context reaches its deadline long before the max wait time: the waiting policy is the only policy,
		// whatever it returns is what the caller gets
		dctx, dcancel := context.WithTimeout(context.Background(), c)
		zzvrt.CellSet("firedAt", zzvrt.Now()+int64(c))
		_, err = failsafe.NewExecutor[int](inner).WithContext(dctx).GetWithExecution(fn)
		dcancel()
	} else if viaResult {
		// the waiting policy is outermost: whatever it returns is what the caller gets
		res := failsafe.NewExecutor[int](inner, rp).GetWithExecutionAsync(fn)
		zzvrt.Sleep(c)
		zzvrt.CellSet("firedAt", zzvrt.Now())
		res.Cancel()
		_, err = res.Get()
	} else {
		go func() {
			zzvrt.Sleep(c)
			zzvrt.CellSet("firedAt", zzvrt.Now())
			cancel()
		}()
		_, err = failsafe.NewExecutor[int](rp, inner).WithContext(ctx).GetWithExecution(fn)
	}
	end := zzvrt.Now()
	zzvrt.Quiesce()
	if src == 2 {
		zzvrt.Assert(errors.Is(err, context.DeadlineExceeded), "cancel: a context deadline reached during a policy's wait is reported as context.DeadlineExceeded")
		zzvrt.Assert(zzvrt.CtrGet("onFull") == 0, "cancel: a wait ended by the context's deadline is not reported as a full bulkhead")
	} else if viaResult {
		zzvrt.Assert(errors.Is(err, failsafe.ErrExecutionCanceled), "cancel: ExecutionResult.Cancel during a policy's wait is reported as ErrExecutionCanceled")
	} else {
		zzvrt.Assert(errors.Is(err, context.Canceled), "cancel: a waiting policy observes the cancellation and reports context.Canceled")
	}
	zzvrt.Assert(end == zzvrt.CellGet("firedAt"), "cancel: a waiting policy does not wait out its delay after cancellation")
	zzvrt.Assert(zzvrt.CtrGet("starts") == 0, "cancel: the function is not started after the cancellation")
	zzvrt.Assert(zzvrt.Live() == 0, "leak: no library goroutine left after a cancelled wait")
	zzvrt.Assert(zzvrt.ArmedTimers() == 0, "leak: no library timer left armed after a cancelled wait")
	zzvrt.Reach("cancel-wait-done")
}

// ---------------------------------------------------------------------------------------------
// S04: concurrent executions through one circuit breaker with a virtual clock.
func ZZ_S04a_BreakerOpen() {
	D := symDur("delay", 1, 30)
	cb := circuitbreaker.Builder[int]().WithFailureThreshold(1).WithDelay(D).
		OnOpen(func(e circuitbreaker.StateChangedEvent) {
			zzvrt.CellSet("openedAt", zzvrt.Now())
			zzvrt.CtrAdd("opened", 1)
		}).Build()
	n := zzvrt.Param("execs", 3)
	res := make([]failsafe.ExecutionResult[int], n)
	for i := 0; i < n; i++ {
		k := i
		off := symDur("offset", 0, 30)
		d := symDur("d", 0, 30)
		fail := zzvrt.Choose("fails", 2) == 1
		go func() {
			zzvrt.Sleep(off)
			// black-box ordering point: was the breaker already open, with its delay not elapsed, when this execution began?
			openBefore := zzvrt.CtrGet("opened") > 0 && zzvrt.Now() < zzvrt.CellGet("openedAt")+int64(D) && cb.IsOpen()
			r, err := failsafe.NewExecutor[int](cb).GetWithExecution(func(e failsafe.Execution[int]) (int, error) {
				zzvrt.CtrAdd(idx("ran", k), 1)
				zzvrt.Sleep(d)
				if fail {
					return 0, errA
				}
				return 1, nil
			})
			if openBefore && zzvrt.CtrGet("opened") == 1 {
				zzvrt.Assert(errors.Is(err, circuitbreaker.ErrOpen), "breaker: while open and before the delay elapsed every execution fails with ErrOpen")
				zzvrt.Assert(zzvrt.CtrGet(idx("ran", k)) == 0, "breaker: while open the function is never invoked")
			}
			if errors.Is(err, circuitbreaker.ErrOpen) {
				zzvrt.Assert(zzvrt.CtrGet(idx("ran", k)) == 0, "breaker: an execution failed with ErrOpen did not run the function")
			} else if fail {
				zzvrt.Assert(err == errA, "breaker: admitted execution returns the function's outcome")
			} else {
				zzvrt.Assert(r == 1, "breaker: admitted execution returns the function's outcome")
			}
			zzvrt.CtrAdd("finished", 1)
		}()
		_ = res
	}
	zzvrt.Quiesce()
	zzvrt.Assert(zzvrt.CtrGet("finished") == n, "breaker: every execution completes")
	zzvrt.Reach("breaker-open-done")
}

// S04b: half-open admits at most the trial capacity and every admitted trial gives its permit back.
func ZZ_S04b_HalfOpen() {
	c := 1 + zzvrt.Choose("capacity-1", zzvrt.Param("max_cap", 2))
	delay := symDur("breakerDelay", 1, 30)
	cb := circuitbreaker.Builder[int]().WithFailureThreshold(1).WithSuccessThresholdRatio(uint(c), uint(c)).WithDelay(delay).Build()
	if zzvrt.Choose("manual-half-open", 2) == 1 {
		cb.HalfOpen() // nothing admitted before is in flight
	} else {
		cb.Open()
		zzvrt.Sleep(delay) // the delay elapses (exactly): the next request half-opens the breaker and is itself a trial
	}
	n := c + 1
	for i := 0; i < n; i++ {
		d := symDur("d", 0, 30)
		fail := zzvrt.Choose("fails", 2) == 1
		under := 0 // alone / under retry / under timeout that may fire (first execution only)
		T := time.Duration(1)
		if i == 0 {
			under = zzvrt.Choose("wrapped", 3)
			if under == 2 {
				T = symDur("T", 1, 30)
			}
		}
		go func() {
			var ps []failsafe.Policy[int]
			switch under {
			case 1:
				ps = append(ps, retrypolicy.Builder[int]().WithMaxRetries(1).Build())
			case 2:
				ps = append(ps, timeout.With[int](T))
			}
			ps = append(ps, cb)
			failsafe.NewExecutor[int](ps...).GetWithExecution(func(e failsafe.Execution[int]) (int, error) {
				if cb.IsHalfOpen() || cb.IsOpen() {
					now := zzvrt.CtrAdd("trials", 1)
					zzvrt.Assert(now <= c || cb.IsClosed(), "breaker: never more trial executions in flight than the half-open capacity")
					zzvrt.Sleep(d)
					zzvrt.CtrAdd("trials", -1)
				} else {
					zzvrt.Sleep(d)
				}
				if fail {
					return 0, errA
				}
				return 1, nil
			})
			zzvrt.CtrAdd("finished", 1)
		}()
	}
	zzvrt.Quiesce()
	zzvrt.Assert(zzvrt.CtrGet("finished") == n, "breaker: every execution completes")
	if cb.IsHalfOpen() {
		free := 0
		for cb.TryAcquirePermit() {
			free++
			if free > c {
				break
			}
		}
		zzvrt.Assert(free == c, "breaker: after quiescence in an undecided half-open state exactly the trial capacity is available again")
	}
	zzvrt.Assert(zzvrt.Live() == 0, "leak: no library goroutine left after breaker executions")
	zzvrt.Reach("half-open-done")
}

// ---------------------------------------------------------------------------------------------
// S15: async future protocol: readers at arbitrary points, Done/IsDone/Get agreement, sync ≡ async.
func ZZ_S15a_Async() {
	comp := zzvrt.Choose("composition", 3) // none / retry / fallback∘retry
	entry := zzvrt.Choose("entry-point", 4)
	var ps []failsafe.Policy[int]
	if comp == 2 {
		ps = append(ps, fallback.WithResult(55))
	}
	if comp >= 1 {
		ps = append(ps, retrypolicy.Builder[int]().WithMaxRetries(1).Build())
	}
	o1 := zzvrt.Choose("outcome1", 2)
	o2 := zzvrt.Choose("outcome2", 2)
	mk := func(counter string) func() (int, error) {
		return func() (int, error) {
			k := zzvrt.CtrAdd(counter, 1)
			o := o1
			if k > 1 {
				o = o2
			}
			if o == 0 {
				return 7, nil
			}
			return 0, errA
		}
	}
	listenerDone := func(e failsafe.ExecutionDoneEvent[int]) { zzvrt.CtrAdd("onDone", 1) }
	ex := failsafe.NewExecutor[int](ps...).OnDone(listenerDone)
	f := mk("asyncCalls")
	var res failsafe.ExecutionResult[int]
	switch entry {
	case 0:
		res = ex.GetAsync(f)
	case 1:
		res = ex.GetWithExecutionAsync(func(e failsafe.Execution[int]) (int, error) { return f() })
	case 2:
		res = ex.RunAsync(func() error { _, err := f(); return err })
	default:
		res = ex.RunWithExecutionAsync(func(e failsafe.Execution[int]) error { _, err := f(); return err })
	}
	cancelling := zzvrt.Choose("with-cancel", 2) == 1
	if cancelling {
		go func() {
			res.Cancel()
		}()
	}
	readers := zzvrt.Param("readers", 2)
	if cancelling {
		readers = 1
	}
	for i := 0; i < readers; i++ {
		k := i
		go func() {
			if res.IsDone() {
				zzvrt.Assert(zzvrt.CtrGet("onDone") == 1, "async: IsDone true only after the completion listeners ran")
				select {
				case <-res.Done():
				default:
					// the flag is set one step before the channel is closed; the channel closes with no further step by anyone else
				}
			}
			select {
			case <-res.Done():
				zzvrt.Assert(res.IsDone(), "async: Done closed implies IsDone")
				zzvrt.Assert(zzvrt.CtrGet("onDone") == 1, "async: Done closed only after the completion listeners ran")
			default:
			}
			v, err := res.Get()
			zzvrt.Assert(res.IsDone(), "async: Get returns only once done")
			zzvrt.CellSet(idx("gotV", k), int64(v))
			zzvrt.CellSet(idx("gotE", k), b2i(err != nil))
			v2 := res.Result()
			e2 := res.Error()
			zzvrt.Assert(v2 == v, "async: Result agrees with Get for every caller")
			zzvrt.Assert((e2 != nil) == (err != nil), "async: Error agrees with Get for every caller")
			zzvrt.CtrAdd("readersDone", 1)
		}()
	}
	v, err := res.Get()
	zzvrt.Quiesce()
	zzvrt.Assert(zzvrt.CtrGet("readersDone") == readers, "async: every reader is released")
	for k := 0; k < readers; k++ {
		zzvrt.Assert(zzvrt.CellGet(idx("gotV", k)) == int64(v), "async: all readers see the same result")
		zzvrt.Assert(zzvrt.CellGet(idx("gotE", k)) == b2i(err != nil), "async: all readers see the same error")
	}
	if cancelling {
		zzvrt.Assert(zzvrt.CtrGet("onDone") == 1, "events: exactly one OnDone per execution")
		zzvrt.Assert(zzvrt.Live() == 0, "leak: the async runner goroutine has finished")
		zzvrt.Reach("async-cancel-done")
		return
	}
	// the equivalent synchronous execution
	sv, serr := failsafe.NewExecutor[int](ps...).Get(mk("syncCalls"))
	if entry >= 2 {
		sv = 0
		if comp == 2 && serr == nil && v == 55 {
			sv = 55
		}
	}
	if entry < 2 {
		zzvrt.Assert(v == sv, "async: values agree with the equivalent synchronous execution")
	}
	zzvrt.Assert((err != nil) == (serr != nil), "async: errors agree with the equivalent synchronous execution")
	zzvrt.Assert(zzvrt.CtrGet("asyncCalls") == zzvrt.CtrGet("syncCalls"), "async: same number of invocations as the synchronous execution")
	zzvrt.Assert(zzvrt.CtrGet("onDone") == 1, "events: exactly one OnDone per execution")
	zzvrt.Assert(zzvrt.Live() == 0, "leak: the async runner goroutine has finished")
	zzvrt.Reach("async-done")
}

// ---------------------------------------------------------------------------------------------
// S14: dedicated concurrency mixes for the race/deadlock/panic detectors.
func ZZ_S14a_SharedPolicies() {
	cb := circuitbreaker.Builder[int]().WithFailureThresholdRatio(2, 3).WithDelay(time.Duration(1) << 20).Build()
	rl := ratelimiter.Bursty[int](2, time.Duration(1)<<20)
	bh := bulkhead.With[int](2)
	rp := retrypolicy.Builder[int]().WithMaxRetries(1).Build()
	ex := failsafe.NewExecutor[int](rp, cb, rl, bh)
	n := zzvrt.Param("execs", 2)
	for i := 0; i < n; i++ {
		fail := zzvrt.Choose("fails", 2) == 1
		async := zzvrt.Choose("async", 2) == 1
		f := func(e failsafe.Execution[int]) (int, error) {
			if fail {
				return 0, errA
			}
			return 1, nil
		}
		go func() {
			if async {
				ex.GetWithExecutionAsync(f).Get()
			} else {
				ex.GetWithExecution(f)
			}
			zzvrt.CtrAdd("finished", 1)
		}()
	}
	// standalone API calls on the shared instances at the same time
	go func() {
		cb.RecordFailure()
		cb.State()
		cb.Metrics().Failures()
		rl.TryAcquirePermit()
		if bh.TryAcquirePermit() {
			bh.ReleasePermit()
		}
		zzvrt.CtrAdd("finished", 1)
	}()
	zzvrt.Quiesce()
	zzvrt.Assert(zzvrt.CtrGet("finished") == n+1, "concurrency: no deadlock, every party finishes")
	zzvrt.Reach("shared-done")
}

// S14b: the goroutines a policy starts for one execution must not race on that execution's state:
// hedge attempts through an inner retry policy, and a timeout around a hedge.
func ZZ_S14b_HedgeInner() {
	which := zzvrt.Param("inner", -1)
	if which < 0 {
		which = zzvrt.Choose("inner", 2)
	}
	D := symDur("D", 1, 30)
	d0 := symDur("d0", 0, 30)
	d1 := symDur("d1", 0, 30)
	hp := hedgepolicy.BuilderWithDelay[int](D).Build()
	var ps []failsafe.Policy[int]
	if which == 0 {
		ps = []failsafe.Policy[int]{hp, retrypolicy.Builder[int]().WithMaxRetries(1).Build()}
	} else {
		ps = []failsafe.Policy[int]{timeout.With[int](time.Duration(1) << 32), hp}
	}
	failsafe.NewExecutor[int](ps...).GetWithExecution(func(e failsafe.Execution[int]) (int, error) {
		if e.IsHedge() {
			zzvrt.Sleep(d1)
		} else {
			zzvrt.Sleep(d0)
		}
		return 0, errA
	})
	zzvrt.Quiesce()
	zzvrt.Reach("hedge-inner-done")
}

// ---------------------------------------------------------------------------------------------
// S08c: cancellation of a hedged execution (context cancel at a symbolic instant): cooperating
// attempts return on cancellation, the caller gets context.Canceled (or the completed result) and
// the execution does not wait out the remaining hedge delay.
func ZZ_S08c_CancelHedge() {
	D := symDur("hedgeDelay", 1, 30)
	c := symDur("cancelAt", 0, 30)
	matching := zzvrt.Choose("cancel-conditions-match", 2) == 1
	b := hedgepolicy.BuilderWithDelay[int](D).WithMaxHedges(zzvrt.Param("max_hedges", 1))
	if !matching {
		b = b.CancelOnResult(12345) // nothing the attempts produce matches: a result is accepted only when all attempts finished
	}
	hp := b.Build()
	fn := func(e failsafe.Execution[int]) (int, error) {
		zzvrt.CtrAdd("starts", 1)
		if zzvrt.CtrGet("fired") == 1 {
			zzvrt.CtrAdd("startsAfterCancel", 1)
		}
		<-e.Canceled() // cooperating: returns as soon as it is cancelled
		return 0, errA
	}
	// the source: the caller's context, or (async) the ExecutionResult
	viaResult := zzvrt.Choose("cancel-through-result", 2) == 1
	var err error
	if viaResult {
		res := failsafe.NewExecutor[int](hp).GetWithExecutionAsync(fn)
		zzvrt.Sleep(c)
		zzvrt.CellSet("firedAt", zzvrt.Now())
		res.Cancel()
		zzvrt.CtrAdd("fired", 1)
		_, err = res.Get()
		end := zzvrt.Now()
		zzvrt.Quiesce()
		zzvrt.Assert(errors.Is(err, failsafe.ErrExecutionCanceled), "cancel: ExecutionResult.Cancel before a hedged execution completes is reported as ErrExecutionCanceled")
		zzvrt.Assert(zzvrt.CtrGet("startsAfterCancel") <= 1, "cancel: at most one further attempt starts after the cancellation")
		zzvrt.Assert(end == zzvrt.CellGet("firedAt"), "cancel: a hedged execution completes without waiting out the remaining hedge delay")
		zzvrt.Assert(zzvrt.Live() == 0, "leak: no library goroutine left after a cancelled hedged execution")
		zzvrt.Assert(zzvrt.ArmedTimers() == 0, "leak: no library timer left armed after a cancelled hedged execution")
		zzvrt.Reach("cancel-hedge-result-done")
		return
	}
	ctx, cancel := context.WithCancel(context.Background())
	go func() {
		zzvrt.Sleep(c)
		zzvrt.CellSet("firedAt", zzvrt.Now())
		cancel()
		zzvrt.CtrAdd("fired", 1)
	}()
	_, err = failsafe.NewExecutor[int](hp).WithContext(ctx).GetWithExecution(fn)
	end := zzvrt.Now()
	zzvrt.Quiesce()
	zzvrt.Assert(errors.Is(err, context.Canceled), "cancel: a cancelled hedged execution reports context.Canceled")
	zzvrt.Assert(zzvrt.CtrGet("startsAfterCancel") <= 1, "cancel: at most one further attempt starts after the cancellation")
	zzvrt.Assert(end == zzvrt.CellGet("firedAt"), "cancel: a hedged execution completes without waiting out the remaining hedge delay")
	zzvrt.Assert(zzvrt.Live() == 0, "leak: no library goroutine left after a cancelled hedged execution")
	zzvrt.Assert(zzvrt.ArmedTimers() == 0, "leak: no library timer left armed after a cancelled hedged execution")
	zzvrt.Reach("cancel-hedge-done")
}

// ---------------------------------------------------------------------------------------------
// S17b: Retry(Hedge(fn)): statistics with retries and hedges in one execution.
func ZZ_S17b_RetryHedgeStats() {
	D := symDur("hedgeDelay", 1, 30)
	d0 := symDur("d0", 0, 30)
	hp := hedgepolicy.BuilderWithDelay[int](D).OnHedge(func(e failsafe.ExecutionEvent[int]) { zzvrt.CtrAdd("hedgesStarted", 1) }).Build()
	rp := retrypolicy.Builder[int]().WithMaxRetries(1).OnRetry(func(e failsafe.ExecutionEvent[int]) {
		zzvrt.CtrAdd("retriesStarted", 1)
		zzvrt.Assert(e.Retries() == zzvrt.CtrGet("retriesStarted"), "stats: Retries counts exactly the retries started (in OnRetry)")
		zzvrt.Assert(e.Attempts() == 1+e.Retries()+e.Hedges(), "stats: Attempts = 1 + retries + hedges (in OnRetry)")
	}).Build()
	failsafe.NewExecutor[int](rp, hp).OnDone(func(e failsafe.ExecutionDoneEvent[int]) {
		zzvrt.Assert(e.Attempts() == 1+e.Retries()+e.Hedges(), "stats: Attempts = 1 + retries + hedges (in OnDone)")
		zzvrt.Assert(e.Retries() == zzvrt.CtrGet("retriesStarted"), "stats: Retries counts exactly the retries started (in OnDone)")
		zzvrt.Assert(e.Hedges() == zzvrt.CtrGet("hedgesStarted"), "stats: Hedges counts exactly the hedges started (in OnDone)")
		zzvrt.Assert(e.Executions() <= zzvrt.CtrGet("completed"), "stats: Executions never exceeds the completed invocations (in OnDone)")
	}).GetWithExecution(func(e failsafe.Execution[int]) (int, error) {
		// (the counters are read one by one while other attempts may be starting, so the identity is only
		// asserted where no attempt can start concurrently: in OnRetry and OnDone)
		zzvrt.Assert(e.Retries() <= 1, "stats: Retries never exceeds the retries the policy allows")
		zzvrt.Assert(e.Hedges() <= 2, "stats: Hedges never exceeds one hedge per retry round")
		if !e.IsHedge() {
			zzvrt.Sleep(d0)
		}
		zzvrt.CtrAdd("completed", 1)
		return 0, errA
	})
	zzvrt.Quiesce()
	zzvrt.Reach("retry-hedge-stats-done")
}

// S06b: a standalone AcquirePermit(ctx) caller cancelled while waiting on a full bulkhead never
// returns a permit it did not get.
func ZZ_S06b_StandaloneWaiter() {
	bh := bulkhead.With[int](1)
	d := symDur("holderDuration", 1, 30)
	c := symDur("cancelAt", 0, 30)
	late := symDur("lateArrival", 0, 30)
	ctx, cancel := context.WithCancel(context.Background())
	first := failsafe.NewExecutor[int](bh).GetWithExecutionAsync(func(e failsafe.Execution[int]) (int, error) {
		now := zzvrt.CtrAdd("inflight", 1)
		zzvrt.Assert(now <= 1, "bulkhead: never more than maxConcurrency executions in progress (standalone permits included)")
		zzvrt.Sleep(d)
		zzvrt.CtrAdd("inflight", -1)
		return 1, nil
	})
	go func() { // standalone waiter
		if bh.AcquirePermit(ctx) == nil {
			now := zzvrt.CtrAdd("inflight", 1)
			zzvrt.Assert(now <= 1, "bulkhead: never more than maxConcurrency executions in progress (standalone permits included)")
			zzvrt.CtrAdd("inflight", -1)
			bh.ReleasePermit()
		}
		zzvrt.CtrAdd("waiterDone", 1)
	}()
	go func() {
		zzvrt.Sleep(c)
		cancel()
	}()
	zzvrt.Sleep(late)
	failsafe.NewExecutor[int](bh).GetWithExecution(func(e failsafe.Execution[int]) (int, error) {
		now := zzvrt.CtrAdd("inflight", 1)
		zzvrt.Assert(now <= 1, "bulkhead: never more than maxConcurrency executions in progress (standalone permits included)")
		zzvrt.CtrAdd("inflight", -1)
		return 2, nil
	})
	first.Get()
	cancel()
	zzvrt.Quiesce()
	zzvrt.Assert(zzvrt.CtrGet("waiterDone") == 1, "bulkhead: the standalone waiter returns")
	zzvrt.Assert(bh.TryAcquirePermit(), "bulkhead: after all executions finish exactly maxConcurrency permits are available again")
	zzvrt.Assert(!bh.TryAcquirePermit(), "bulkhead: after all executions finish exactly maxConcurrency permits are available again")
	zzvrt.Reach("standalone-waiter-done")
}

// ---------------------------------------------------------------------------------------------
// S09b: the hedge policy placed inside a retry, a timeout or a fallback.
func ZZ_S09b_HedgePlacements() {
	D := symDur("D", 1, 30)
	d0 := symDur("d0", 0, 30)
	d1 := symDur("d1", 0, 30)
	place := zzvrt.Choose("placement", 3)
	hb := hedgepolicy.BuilderWithDelay[int](D).OnHedge(func(e failsafe.ExecutionEvent[int]) { zzvrt.CtrAdd("hedges", 1) })
	strict := place == 0 && zzvrt.Choose("never-matching-cancel-conditions", 2) == 1
	if strict {
		hb = hb.CancelOnResult(12345) // no attempt produces it: each round's result is delivered only after both attempts finished
	}
	hp := hb.Build()
	var ps []failsafe.Policy[int]
	T := symDur("T", 1, 30)
	switch place {
	case 0:
		ps = []failsafe.Policy[int]{retrypolicy.Builder[int]().WithMaxRetries(1).Build(), hp}
	case 1:
		ps = []failsafe.Policy[int]{timeout.With[int](T), hp}
	default:
		ps = []failsafe.Policy[int]{fallback.WithResult(55), hp}
	}
	start := zzvrt.Now()
	r, err := failsafe.NewExecutor[int](ps...).GetWithExecution(func(e failsafe.Execution[int]) (int, error) {
		k := zzvrt.CtrAdd("starts", 1)
		zzvrt.CtrAdd("roundStarts", 1)
		if e.IsHedge() {
			// (a hedge launched in the timer/result tie of one retry round may only get to run during the next
			// round, so per-round timing is asserted in S09a; here only the totals are)
			zzvrt.Assert(zzvrt.Now()-start >= int64(D), "hedge: a hedge never starts before the hedge delay has elapsed")
			if strict {
				// with never-matching cancel conditions a round ends only when both of its attempts have finished, so this
				// hedge belongs to the round whose first attempt started last: the delay counts from *that* hedged execution's start
				zzvrt.Assert(zzvrt.Now()-zzvrt.CellGet("roundStart") >= int64(D), "hedge: a hedge never starts before the hedge delay has elapsed since its own hedged execution began (every retry round)")
			}
			zzvrt.Sleep(d1)
		} else {
			zzvrt.CtrSet("roundStarts", 1)
			zzvrt.CtrAdd("firsts", 1)
			zzvrt.CellSet("roundStart", zzvrt.Now())
			zzvrt.Sleep(d0)
		}
		_ = k
		return 0, errA
	})
	end := zzvrt.Now()
	zzvrt.Quiesce()
	switch place {
	case 0:
		zzvrt.Assert(errors.Is(err, retrypolicy.ErrExceeded), "retry: gives up with ExceededError")
		zzvrt.Assert(zzvrt.CtrGet("starts") <= 4, "hedge: at most maxHedges+1 attempts per retry round")
		zzvrt.Assert(zzvrt.CtrGet("starts") >= 2, "retry: each round runs at least the first attempt")
		if strict {
			zzvrt.Assert(zzvrt.CtrGet("starts") == 4, "hedge: a non-matching result is delivered only after all attempts finished (in every retry round)")
		}
	case 1:
		if errors.Is(err, timeout.ErrExceeded) {
			zzvrt.Assert(end-start >= int64(T), "timeout: ErrExceeded never before the time limit elapsed")
		} else {
			zzvrt.Assert(err == errA, "hedge: result produced by one of the attempts")
		}
		zzvrt.Assert(zzvrt.CtrGet("starts") <= 2, "hedge: at most maxHedges+1 attempts")
	default:
		zzvrt.Assert(err == nil, "fallback: replaces the failure")
		zzvrt.Assert(r == 55, "fallback: replaces the failure")
		zzvrt.Assert(zzvrt.CtrGet("starts") <= 2, "hedge: at most maxHedges+1 attempts")
	}
	zzvrt.Assert(zzvrt.CtrGet("hedges") == zzvrt.CtrGet("starts")-zzvrt.CtrGet("firsts"), "events: OnHedge once per hedge started")
	zzvrt.Assert(zzvrt.Live() == 0, "leak: no library goroutine left")
	zzvrt.Assert(zzvrt.ArmedTimers() == 0, "leak: no library timer left armed")
	zzvrt.Reach("hedge-placements-done")
}

// ---------------------------------------------------------------------------------------------
// C11b: two executions through one cache policy with different context-supplied keys that overlap — nested (A's
// function runs B through the same policy) or concurrent (B starts while A's function runs). Each result is stored
// under its own execution's key and later hits return the right value.
type zzSafeCache struct {
	mu sync.Mutex
	m  map[string]int
}

func (c *zzSafeCache) Get(key string) (int, bool) {
	c.mu.Lock()
	defer c.mu.Unlock()
	v, ok := c.m[key]
	return v, ok
}
func (c *zzSafeCache) Set(key string, value int) {
	c.mu.Lock()
	defer c.mu.Unlock()
	c.m[key] = value
}

func ZZ_C11b_OverlappingKeys() {
	cache := &zzSafeCache{m: map[string]int{}}
	cp := cachepolicy.Builder[int](cache).WithKey("configured").Build()
	va := zzvrt.Int("value-a")
	vb := zzvrt.Int("value-b")
	ctxA := context.WithValue(context.Background(), cachepolicy.CacheKey, "a")
	ctxB := context.WithValue(context.Background(), cachepolicy.CacheKey, "b")
	ex := failsafe.NewExecutor[int](cp)
	if zzvrt.Choose("concurrent", 2) == 0 {
		ra, ea := ex.WithContext(ctxA).Get(func() (int, error) {
			rb, eb := ex.WithContext(ctxB).Get(func() (int, error) { return vb, nil })
			zzvrt.Assert(eb == nil, "cache: a miss returns the inner result unchanged")
			zzvrt.Assert(rb == vb, "cache: a miss returns the inner result unchanged")
			return va, nil
		})
		zzvrt.Assert(ea == nil, "cache: a miss returns the inner result unchanged")
		zzvrt.Assert(ra == va, "cache: a miss returns the inner result unchanged")
	} else {
		d := symDur("fnDurationA", 1, 20)
		off := symDur("startB", 0, 20)
		resA := ex.WithContext(ctxA).GetAsync(func() (int, error) {
			zzvrt.Sleep(d)
			return va, nil
		})
		zzvrt.Sleep(off)
		rb, eb := ex.WithContext(ctxB).Get(func() (int, error) { return vb, nil })
		zzvrt.Assert(eb == nil, "cache: a miss returns the inner result unchanged")
		zzvrt.Assert(rb == vb, "cache: a miss returns the inner result unchanged")
		ra, ea := resA.Get()
		zzvrt.Assert(ea == nil, "cache: a miss returns the inner result unchanged")
		zzvrt.Assert(ra == va, "cache: a miss returns the inner result unchanged")
	}
	zzvrt.Quiesce()
	ga, oka := cache.Get("a")
	gb, okb := cache.Get("b")
	zzvrt.Assert(oka, "cache: the result is stored under the execution's own (context-supplied) key")
	zzvrt.Assert(okb, "cache: the result is stored under the execution's own (context-supplied) key")
	zzvrt.Assert(ga == va, "cache: the result is stored under the execution's own (context-supplied) key")
	zzvrt.Assert(gb == vb, "cache: the result is stored under the execution's own (context-supplied) key")
	zzvrt.Assert(len(cache.m) == 2, "cache: nothing else stored")
	hit, eh := ex.WithContext(ctxB).Get(func() (int, error) {
		zzvrt.Fail("cache: a hit does not invoke the function")
		return 0, nil
	})
	zzvrt.Assert(eh == nil, "cache: a hit returns the cached value with no error")
	zzvrt.Assert(hit == vb, "cache: a hit returns the value cached under the execution's key")
	zzvrt.Reach("overlapping-keys-done")
}

//go:build verif

// Package zzverif holds the cross-package harnesses: the real executor pipeline is run on a
// composition of real policies and compared with an independent reference nesting model
// (DESIGN Appendix A): C01 (nesting), C02 (retry), C10 (fallback), C11 (cache), C16 (events),
// C17 (statistics).
package zzverif

import (
	"context"
	"errors"
	"time"

	"github.com/failsafe-go/failsafe-go"
	"github.com/failsafe-go/failsafe-go/bulkhead"
	"github.com/failsafe-go/failsafe-go/cachepolicy"
	"github.com/failsafe-go/failsafe-go/circuitbreaker"
	"github.com/failsafe-go/failsafe-go/fallback"
	"github.com/failsafe-go/failsafe-go/internal/zzvrt"
	"github.com/failsafe-go/failsafe-go/ratelimiter"
	"github.com/failsafe-go/failsafe-go/retrypolicy"
	"github.com/failsafe-go/failsafe-go/timeout"
)

var errA = errors.New("errA")
var errB = errors.New("errB")
var errFB = errors.New("fallback-error")
var errC = errors.New("errC") // never produced: second target of the variadic HandleErrors / AbortOnErrors registrations

const (
	kRetry = iota
	kBreaker
	kFallback
	kCache
	kBulkhead
	kLimiter
	kTimeout
	nKinds
)

// event codes: policyIndex*100 + code (executor-level events use policy index 9)
const (
	evSuccess = iota + 1
	evFailure
	evAbort
	evRetriesExceeded
	evRetryScheduled
	evRetry
	evOpen
	evHalfOpen
	evClose
	evStateChanged
	evFallbackExecuted
	evCacheHit
	evCacheMiss
	evCached
	evFull
	evRateLimited
	evTimeout
	evDone
)

// handle-condition kinds shared by retry / breaker / fallback
const (
	hDefault = iota // no conditions: any error fails
	hErrA           // HandleErrors(errA)
	hResult         // HandleResult(-1): errors still fail by default
	nHandle
)

type outcome struct {
	v int
	e error
}

// what the user function saw when it was invoked (C17)
type fnView struct {
	attempts, executions, retries, hedges int
	first, retry, hedge                   bool
	last                                  outcome
}

type layerCfg struct {
	kind   int
	handle int
	// retry
	maxRetries  int
	returnLast  bool
	abortOnB    bool // AbortOnErrors(errB)
	viaAttempts bool // configured through WithMaxAttempts(maxRetries+1) instead of WithMaxRetries
	delayFn     bool // WithDelayFunc recording the LastResult/LastError it is shown
	// breaker
	threshold uint
	// fallback
	fbKind int // 0 WithResult(77), 1 WithError(errFB), 2 WithFunc (returns 78, records the execution it sees)
	// cache
	key     string
	cacheIf int // 0 none, 1 CacheIf(result == 5)
	// bulkhead / limiter
	capacity uint
	preHeld  uint
}

// fails is the documented classification (C12) for the three handle kinds.
func fails(h int, o outcome) bool {
	switch h {
	case hDefault:
		return o.e != nil
	case hErrA:
		return errors.Is(o.e, errA) // only errA (possibly wrapped, e.g. in an ExceededError) is handled
	default: // hResult
		if o.e != nil {
			return true
		}
		return o.v == -1
	}
}

// fbResult is the fixed result of a WithResult fallback: under HandleResult(-1) it is the handled value itself, i.e. a
// fallback output that carries no error but is still a failure by the fallback's own conditions.
func fbResult(handle int) int {
	if handle == hResult {
		return -1
	}
	return 77
}

// memCache is the instrumented user cache.
type memCache struct {
	m          map[string]int
	gets, sets int
}

func (c *memCache) Get(key string) (int, bool) {
	c.gets++
	v, ok := c.m[key]
	return v, ok
}
func (c *memCache) Set(key string, value int) {
	c.sets++
	c.m[key] = value
}

// world is everything shared between the real run and the reference run.
type world struct {
	cfgs   []layerCfg
	script []outcome // outcome of the i-th function invocation over the whole history
	nInv   int       // invocations consumed by the real run

	// real side
	log      []int
	views    []fnView
	fbSeen   []outcome
	dfSeen   []outcome // what retry delay functions were shown
	rdfSeen  []outcome
	fbCalls  int
	cache    *memCache
	breakers []circuitbreaker.CircuitBreaker[int]
	bulks    []bulkhead.Bulkhead[int]

	// reference side
	rlog     []int
	rviews   []fnView
	rfbSeen  []outcome
	rInv     int
	rcache   map[string]int
	rsets    int
	rgets    int
	rbWindow [][]bool // per layer: closed window of the reference breaker
	rbOpen   []bool
	rlGrants []uint // per layer: permits granted so far by the reference limiter

	ctxKeyKind int // 0 none, 1 string key "c" in the context, 2 non-string value under CacheKey, 3 empty string key
}

func (w *world) effKey(c layerCfg) string {
	if w.ctxKeyKind == 1 {
		return "c" // a string key supplied through the context takes precedence
	}
	if w.ctxKeyKind == 3 {
		return "" // ... also when it is empty: then there is no key and the cache is neither read nor written
	}
	return c.key
}

func (w *world) ev(layer, code int)  { w.log = append(w.log, layer*100+code) }
func (w *world) rev(layer, code int) { w.rlog = append(w.rlog, layer*100+code) }

func chooseCfg(kind int, idx int) layerCfg {
	c := layerCfg{kind: kind}
	switch kind {
	case kRetry:
		c.handle = zzvrt.Choose("retry.handle", zzvrt.Param("handles", nHandle))
		// -1 (unlimited) .. max; unlimited only where every attempt reaches the function (otherwise an inner
		// rejection such as ErrOpen is retried forever at zero delay, in the real code as well)
		c.maxRetries = zzvrt.Choose("retry.maxRetries+1", zzvrt.Param("max_retries", 2)+1+zzvrt.Param("unlimited", 0)) - zzvrt.Param("unlimited", 0)
		c.returnLast = zzvrt.Choose("retry.returnLast", 2) == 1
		c.abortOnB = zzvrt.Choose("retry.abortOnB", 2) == 1
		c.viaAttempts = zzvrt.Param("via_attempts", 0) == 1 && zzvrt.Choose("retry.viaMaxAttempts", 2) == 1
		c.delayFn = zzvrt.Param("delay_fn", 0) == 1 && zzvrt.Choose("retry.delayFunc", 2) == 1
	case kBreaker:
		c.handle = zzvrt.Choose("breaker.handle", zzvrt.Param("handles", nHandle))
		c.threshold = uint(1 + zzvrt.Choose("breaker.threshold-1", 2))
	case kFallback:
		c.handle = zzvrt.Choose("fallback.handle", zzvrt.Param("handles", nHandle))
		c.fbKind = zzvrt.Choose("fallback.kind", 3)
	case kCache:
		c.key = []string{"", "k"}[zzvrt.Choose("cache.key", 2)]
		c.cacheIf = zzvrt.Choose("cache.if", 2)
	case kBulkhead:
		c.capacity = 1
		c.preHeld = uint(zzvrt.Choose("bulkhead.preheld", 2))
	case kLimiter:
		c.capacity = uint(1 + zzvrt.Choose("limiter.permits-1", 2))
	}
	return c
}

// build constructs the real policies with every listener wired to the event log.
func (w *world) build() []failsafe.Policy[int] {
	var ps []failsafe.Policy[int]
	w.breakers = make([]circuitbreaker.CircuitBreaker[int], len(w.cfgs))
	w.bulks = make([]bulkhead.Bulkhead[int], len(w.cfgs))
	for li, c := range w.cfgs {
		i := li
		switch c.kind {
		case kRetry:
			b := retrypolicy.Builder[int]()
			if c.viaAttempts {
				if c.maxRetries == -1 {
					b = b.WithMaxAttempts(-1)
				} else {
					b = b.WithMaxAttempts(c.maxRetries + 1)
				}
			} else {
				b = b.WithMaxRetries(c.maxRetries)
			}
			switch c.handle {
			case hErrA:
				b = b.HandleErrors(errA, errC)
			case hResult:
				b = b.HandleResult(-1)
			}
			if c.returnLast {
				b = b.ReturnLastFailure()
			}
			if c.abortOnB {
				b = b.AbortOnErrors(errB, errC)
			}
			if c.delayFn {
				b = b.WithDelayFunc(func(exec failsafe.ExecutionAttempt[int]) time.Duration {
					w.dfSeen = append(w.dfSeen, outcome{exec.LastResult(), exec.LastError()})
					return 0
				})
			}
			b = b.OnSuccess(func(e failsafe.ExecutionEvent[int]) { w.ev(i, evSuccess) }).
				OnFailure(func(e failsafe.ExecutionEvent[int]) { w.ev(i, evFailure) }).
				OnAbort(func(e failsafe.ExecutionEvent[int]) { w.ev(i, evAbort) }).
				OnRetriesExceeded(func(e failsafe.ExecutionEvent[int]) { w.ev(i, evRetriesExceeded) }).
				OnRetryScheduled(func(e failsafe.ExecutionScheduledEvent[int]) { w.ev(i, evRetryScheduled) }).
				OnRetry(func(e failsafe.ExecutionEvent[int]) { w.ev(i, evRetry) })
			ps = append(ps, b.Build())
		case kBreaker:
			b := circuitbreaker.Builder[int]().WithFailureThreshold(c.threshold)
			switch c.handle {
			case hErrA:
				b = b.HandleErrors(errA, errC)
			case hResult:
				b = b.HandleResult(-1)
			}
			b = b.OnSuccess(func(e failsafe.ExecutionEvent[int]) { w.ev(i, evSuccess) }).
				OnFailure(func(e failsafe.ExecutionEvent[int]) { w.ev(i, evFailure) }).
				OnOpen(func(e circuitbreaker.StateChangedEvent) { w.ev(i, evOpen) }).
				OnHalfOpen(func(e circuitbreaker.StateChangedEvent) { w.ev(i, evHalfOpen) }).
				OnClose(func(e circuitbreaker.StateChangedEvent) { w.ev(i, evClose) }).
				OnStateChanged(func(e circuitbreaker.StateChangedEvent) { w.ev(i, evStateChanged) })
			cb := b.Build()
			w.breakers[i] = cb
			ps = append(ps, cb)
		case kFallback:
			var b fallback.FallbackBuilder[int]
			switch c.fbKind {
			case 0:
				b = fallback.BuilderWithResult(fbResult(c.handle))
			case 1:
				b = fallback.BuilderWithError[int](errFB)
			default:
				b = fallback.BuilderWithFunc(func(exec failsafe.Execution[int]) (int, error) {
					w.fbCalls++
					w.fbSeen = append(w.fbSeen, outcome{exec.LastResult(), exec.LastError()})
					return 78, nil
				})
			}
			switch c.handle {
			case hErrA:
				b = b.HandleErrors(errA, errC)
			case hResult:
				b = b.HandleResult(-1)
			}
			b = b.OnSuccess(func(e failsafe.ExecutionEvent[int]) { w.ev(i, evSuccess) }).
				OnFailure(func(e failsafe.ExecutionEvent[int]) { w.ev(i, evFailure) }).
				OnFallbackExecuted(func(e failsafe.ExecutionDoneEvent[int]) { w.ev(i, evFallbackExecuted) })
			ps = append(ps, b.Build())
		case kCache:
			b := cachepolicy.Builder[int](w.cache)
			if c.key != "" {
				b = b.WithKey(c.key)
			}
			if c.cacheIf == 1 {
				b = b.CacheIf(func(r int, err error) bool { return r == 5 })
			}
			b = b.OnCacheHit(func(e failsafe.ExecutionDoneEvent[int]) { w.ev(i, evCacheHit) }).
				OnCacheMiss(func(e failsafe.ExecutionEvent[int]) { w.ev(i, evCacheMiss) }).
				OnResultCached(func(e failsafe.ExecutionEvent[int]) { w.ev(i, evCached) })
			ps = append(ps, b.Build())
		case kBulkhead:
			bh := bulkhead.Builder[int](c.capacity).OnFull(func(e failsafe.ExecutionEvent[int]) { w.ev(i, evFull) }).Build()
			for k := uint(0); k < c.preHeld; k++ {
				bh.TryAcquirePermit()
			}
			w.bulks[i] = bh
			ps = append(ps, bh)
		case kLimiter:
			rl := ratelimiter.BurstyBuilder[int](c.capacity, time.Hour).
				OnRateLimitExceeded(func(e failsafe.ExecutionEvent[int]) { w.ev(i, evRateLimited) }).Build()
			ps = append(ps, rl)
		case kTimeout:
			to := timeout.Builder[int](time.Hour).OnTimeoutExceeded(func(e failsafe.ExecutionDoneEvent[int]) { w.ev(i, evTimeout) }).Build()
			ps = append(ps, to)
		}
	}
	return ps
}

// ---- reference nesting model (Appendix A) ----

type refRes struct {
	o     outcome
	okAll bool
}

type refExec struct {
	attempts, executions, retries int
	last                          outcome
	// per-execution retry state, one slot per layer
	failed    []int
	exhausted []bool
}

func (w *world) refLayer(li int, x *refExec) refRes {
	if li == len(w.cfgs) {
		// the user function
		if w.rInv >= len(w.script) {
			zzvrt.Fail("nesting: the reference invokes the function more often than the real execution did")
			return refRes{}
		}
		w.rviews = append(w.rviews, fnView{attempts: x.attempts, executions: x.executions, retries: x.retries,
			first: x.attempts == 1, retry: x.attempts > 1, last: x.last})
		o := w.script[w.rInv]
		w.rInv++
		x.executions++
		return refRes{o, true}
	}
	c := w.cfgs[li]
	switch c.kind {
	case kRetry:
		for {
			r := w.refLayer(li+1, x)
			if x.exhausted[li] {
				return r // an exhausted retry policy is skipped (pinned by TestNestedRetryPoliciesWhereInnerIsExceeded)
			}
			if !fails(c.handle, r.o) {
				w.rev(li, evSuccess)
				return r
			}
			w.rev(li, evFailure)
			x.failed[li]++
			x.exhausted[li] = c.maxRetries != -1 && x.failed[li] > c.maxRetries
			abort := c.abortOnB && errors.Is(r.o.e, errB)
			if abort {
				w.rev(li, evAbort)
			}
			if x.exhausted[li] {
				if !abort {
					w.rev(li, evRetriesExceeded)
				}
				if !c.returnLast {
					return refRes{outcome{0, retrypolicy.ExceededError{LastResult: r.o.v, LastError: r.o.e}}, false}
				}
				return refRes{r.o, false}
			}
			if abort {
				return refRes{r.o, false}
			}
			x.last = r.o
			if c.delayFn {
				w.rdfSeen = append(w.rdfSeen, r.o) // the delay is computed from the attempt that just failed
			}
			w.rev(li, evRetryScheduled)
			x.attempts++
			x.retries++
			w.rev(li, evRetry)
		}
	case kBreaker:
		if w.rbOpen[li] {
			return refRes{outcome{0, circuitbreaker.ErrOpen}, false}
		}
		r := w.refLayer(li+1, x)
		fl := fails(c.handle, r.o)
		if fl {
			w.rev(li, evFailure)
		} else {
			w.rev(li, evSuccess)
		}
		win := append(w.rbWindow[li], !fl)
		if uint(len(win)) > c.threshold {
			win = win[1:]
		}
		w.rbWindow[li] = win
		nf := uint(0)
		for _, ok := range win {
			if !ok {
				nf++
			}
		}
		if !w.rbOpen[li] && nf >= c.threshold {
			w.rbOpen[li] = true
			w.rev(li, evOpen)
			w.rev(li, evStateChanged)
		}
		if fl {
			return refRes{r.o, false}
		}
		return r
	case kFallback:
		r := w.refLayer(li+1, x)
		if !fails(c.handle, r.o) {
			w.rev(li, evSuccess)
			return r
		}
		w.rev(li, evFailure)
		var fo outcome
		switch c.fbKind {
		case 0:
			fo = outcome{fbResult(c.handle), nil}
		case 1:
			fo = outcome{0, errFB}
		default:
			w.rfbSeen = append(w.rfbSeen, r.o)
			fo = outcome{78, nil}
		}
		w.rev(li, evFallbackExecuted)
		return refRes{fo, !fails(c.handle, fo)}
	case kCache:
		key := w.effKey(c)
		if key != "" {
			w.rgets++
			if v, ok := w.rcache[key]; ok {
				w.rev(li, evCacheHit)
				return refRes{outcome{v, nil}, true}
			}
		}
		w.rev(li, evCacheMiss)
		r := w.refLayer(li+1, x)
		cacheable := false
		if c.cacheIf == 0 {
			cacheable = r.o.e == nil
		} else {
			cacheable = r.o.v == 5
		}
		if cacheable && key != "" {
			w.rcache[key] = r.o.v
			w.rsets++
			w.rev(li, evCached)
		}
		return r
	case kBulkhead:
		if c.preHeld >= c.capacity {
			w.rev(li, evFull)
			return refRes{outcome{0, bulkhead.ErrFull}, false}
		}
		return w.refLayer(li+1, x)
	case kLimiter:
		if w.rlGrants[li] >= c.capacity {
			w.rev(li, evRateLimited)
			return refRes{outcome{0, ratelimiter.ErrExceeded}, false}
		}
		w.rlGrants[li]++
		return w.refLayer(li+1, x)
	default: // kTimeout (never firing here; firing is C07)
		return w.refLayer(li+1, x)
	}
}

func sameErr(a, b error) bool {
	var ea, eb retrypolicy.ExceededError
	if errors.As(a, &ea) {
		if !errors.As(b, &eb) {
			return false
		}
		return ea.LastResult == eb.LastResult && ea.LastError == eb.LastError
	}
	return a == b
}

// runHistory runs `execs` executions of the composition on the same policy instances, real
// pipeline first, then the reference on the same script, and compares everything observable.
func runHistory(w *world, execs int, maxInv int) {
	w.cache = &memCache{m: map[string]int{}}
	w.rcache = map[string]int{}
	if zzvrt.Param("cache_prefill", 1) == 1 {
		for _, c := range w.cfgs {
			if c.kind == kCache && w.effKey(c) != "" && zzvrt.Choose("cache.prefilled", 2) == 1 {
				v := zzvrt.Int("cache.content")
				w.cache.m[w.effKey(c)] = v
				w.rcache[w.effKey(c)] = v
			}
		}
	}
	ps := w.build()
	w.rbWindow = make([][]bool, len(w.cfgs))
	w.rbOpen = make([]bool, len(w.cfgs))
	w.rlGrants = make([]uint, len(w.cfgs))
	for n := 0; n < execs; n++ {
		// ---- real execution
		startInv, startViews, startLog, startFb := len(w.script), len(w.views), len(w.log), len(w.fbSeen)
		doneCnt, succCnt, failCnt := 0, 0, 0
		var doneRes outcome
		// which completion listeners are registered: all (1st execution), only OnFailure (2nd), only OnSuccess (3rd) —
		// a verdict must never be delivered to the listener of the other verdict, whichever subset is registered
		lsn := n % 3
		ex := failsafe.NewExecutor[int](ps...)
		if lsn != 1 {
			ex = ex.OnSuccess(func(e failsafe.ExecutionDoneEvent[int]) { succCnt++; w.ev(9, evSuccess) })
		}
		if lsn != 2 {
			ex = ex.OnFailure(func(e failsafe.ExecutionDoneEvent[int]) { failCnt++; w.ev(9, evFailure) })
		}
		ex = ex.
			OnDone(func(e failsafe.ExecutionDoneEvent[int]) {
				doneCnt++
				doneRes = outcome{e.Result, e.Error}
				w.ev(9, evDone)
			})
		ctx := context.Background()
		switch w.ctxKeyKind {
		case 1:
			ctx = context.WithValue(ctx, cachepolicy.CacheKey, "c")
		case 2:
			ctx = context.WithValue(ctx, cachepolicy.CacheKey, 123)
		case 3:
			ctx = context.WithValue(ctx, cachepolicy.CacheKey, "")
		}
		gotV, gotE := ex.WithContext(ctx).GetWithExecution(func(exec failsafe.Execution[int]) (int, error) {
			if len(w.script)-startInv >= maxInv {
				zzvrt.Cut("script length")
			}
			w.views = append(w.views, fnView{attempts: exec.Attempts(), executions: exec.Executions(), retries: exec.Retries(),
				hedges: exec.Hedges(), first: exec.IsFirstAttempt(), retry: exec.IsRetry(), hedge: exec.IsHedge(),
				last: outcome{exec.LastResult(), exec.LastError()}})
			var o outcome
			switch zzvrt.Choose("outcome", 3) {
			case 0:
				o = outcome{zzvrt.Int("value"), nil}
			case 1:
				o = outcome{0, errA}
			default:
				o = outcome{zzvrt.Int("value"), errB}
			}
			w.script = append(w.script, o)
			return o.v, o.e
		})
		// ---- reference execution on the same script
		x := &refExec{attempts: 1, failed: make([]int, len(w.cfgs)), exhausted: make([]bool, len(w.cfgs))}
		w.rInv = startInv
		rstartLog := len(w.rlog)
		rr := w.refLayer(0, x)
		if rr.okAll {
			if lsn != 1 {
				w.rev(9, evSuccess)
			}
		} else if lsn != 2 {
			w.rev(9, evFailure)
		}
		w.rev(9, evDone)

		// ---- compare (C01)
		zzvrt.Assert(w.rInv == len(w.script), "nesting: number of function invocations is determined by the nesting")
		zzvrt.Assert(gotV == rr.o.v, "nesting: returned value is the outermost policy's result")
		zzvrt.Assert(sameErr(gotE, rr.o.e), "nesting: returned error is the outermost policy's error")
		zzvrt.Assert(doneCnt == 1, "events: exactly one OnDone per execution")
		wantSucc, wantFail := 0, 0
		if rr.okAll {
			if lsn != 1 {
				wantSucc = 1
			}
		} else if lsn != 2 {
			wantFail = 1
		}
		zzvrt.Assert(succCnt+failCnt <= 1, "events: exactly one of OnSuccess/OnFailure per execution")
		zzvrt.Assert(succCnt == wantSucc, "nesting: success verdict reported to completion listeners follows the nesting")
		zzvrt.Assert(failCnt == wantFail, "nesting: failure verdict reported to completion listeners follows the nesting")
		zzvrt.Assert(doneRes.v == gotV, "events: OnDone carries the returned result")
		zzvrt.Assert(sameErr(doneRes.e, gotE), "events: OnDone carries the returned error")
		// ---- events (C16)
		zzvrt.Assert(len(w.log)-startLog == len(w.rlog)-rstartLog, "events: number of events emitted by the execution")
		for k := 0; startLog+k < len(w.log) && rstartLog+k < len(w.rlog); k++ {
			zzvrt.Assert(w.log[startLog+k] == w.rlog[rstartLog+k], "events: each event is the one the nesting predicts, in order")
		}
		// ---- statistics (C17)
		zzvrt.Assert(len(w.views) == len(w.rviews), "stats: one observation per invocation")
		for k := startViews; k < len(w.views) && k < len(w.rviews); k++ {
			a, b := w.views[k], w.rviews[k]
			zzvrt.Assert(a.attempts == b.attempts, "stats: Attempts = 1 + retries started")
			zzvrt.Assert(a.executions == b.executions, "stats: Executions = completed function invocations")
			zzvrt.Assert(a.retries == b.retries, "stats: Retries = retries started")
			zzvrt.Assert(a.hedges == 0, "stats: no hedges without a hedge policy")
			zzvrt.Assert(a.first == b.first, "stats: IsFirstAttempt agrees with Attempts")
			zzvrt.Assert(a.retry == b.retry, "stats: IsRetry agrees with Attempts")
			zzvrt.Assert(!a.hedge, "stats: IsHedge false without a hedge policy")
			zzvrt.Assert(a.last.v == b.last.v, "stats: LastResult is the most recent completed attempt's result")
			zzvrt.Assert(a.last.e == b.last.e, "stats: LastError is the most recent completed attempt's error")
		}
		zzvrt.Assert(len(w.dfSeen) == len(w.rdfSeen), "stats: the delay function is consulted once per retry decided")
		for k := 0; k < len(w.dfSeen) && k < len(w.rdfSeen); k++ {
			zzvrt.Assert(w.dfSeen[k].v == w.rdfSeen[k].v, "stats: the delay function sees the most recent completed attempt's result")
			zzvrt.Assert(w.dfSeen[k].e == w.rdfSeen[k].e, "stats: the delay function sees the most recent completed attempt's error")
		}
		// ---- fallback (C10)
		zzvrt.Assert(len(w.fbSeen) == len(w.rfbSeen), "fallback: function applied exactly when the inner outcome is a handled failure")
		for k := startFb; k < len(w.fbSeen) && k < len(w.rfbSeen); k++ {
			zzvrt.Assert(w.fbSeen[k].v == w.rfbSeen[k].v, "fallback: sees the failed result as the last result")
			zzvrt.Assert(w.fbSeen[k].e == w.rfbSeen[k].e, "fallback: sees the failed error as the last error")
		}
		// ---- cache (C11) and stateful policies after the execution
		zzvrt.Assert(w.cache.sets == w.rsets, "cache: Set exactly when the result is cacheable and a key exists")
		zzvrt.Assert(w.cache.gets == w.rgets, "cache: Get exactly once per keyed execution, never without a key")
		for k, v := range w.rcache {
			cv, ok := w.cache.m[k]
			zzvrt.Assert(ok, "cache: stored entry present")
			zzvrt.Assert(cv == v, "cache: stored value is the inner result")
		}
		zzvrt.Assert(len(w.cache.m) == len(w.rcache), "cache: nothing else stored")
		for li, c := range w.cfgs {
			switch c.kind {
			case kBreaker:
				zzvrt.Assert(w.breakers[li].IsOpen() == w.rbOpen[li], "nesting: breaker state after the execution")
				nf, ns := uint(0), uint(0)
				for _, ok := range w.rbWindow[li] {
					if ok {
						ns++
					} else {
						nf++
					}
				}
				zzvrt.Assert(w.breakers[li].Metrics().Failures() == nf, "nesting: breaker failure count after the execution")
				zzvrt.Assert(w.breakers[li].Metrics().Successes() == ns, "nesting: breaker success count after the execution")
			case kBulkhead:
				// every admitted execution returned its permit: exactly capacity-preHeld permits are free
				free := uint(0)
				for w.bulks[li].TryAcquirePermit() {
					free++
				}
				for k := uint(0); k < free; k++ {
					w.bulks[li].ReleasePermit()
				}
				zzvrt.Assert(free == c.capacity-c.preHeld, "nesting: bulkhead permits all returned after the execution")
			}
		}
	}
	zzvrt.Reach("history-compared")
}

// ---- entry points ----

// C01 (+C16, C17): every ordered composition (with repetition) of depth <= `depth`.
func ZZ_C01_Compose() {
	w := &world{}
	depth := 1 + zzvrt.Choose("depth-1", zzvrt.Param("depth", 2))
	for i := 0; i < depth; i++ {
		w.cfgs = append(w.cfgs, chooseCfg(zzvrt.Choose("kind", nKinds), i))
	}
	runHistory(w, zzvrt.Param("execs", 2), zzvrt.Param("max_inv", 3))
}

// C02: retry alone, larger budgets and longer scripts, successive executions on one policy.
func ZZ_C02_Retry() {
	w := &world{}
	w.cfgs = []layerCfg{chooseCfg(kRetry, 0)}
	runHistory(w, zzvrt.Param("execs", 2), zzvrt.Param("max_inv", 5))
}

// C02: retry under / over one other policy.
func ZZ_C02_RetryNested() {
	w := &world{}
	other := chooseCfg(zzvrt.Choose("other", nKinds), 1)
	if zzvrt.Choose("retry-outside", 2) == 1 {
		w.cfgs = []layerCfg{chooseCfg(kRetry, 0), other}
	} else {
		w.cfgs = []layerCfg{other, chooseCfg(kRetry, 0)}
	}
	runHistory(w, zzvrt.Param("execs", 1), zzvrt.Param("max_inv", 4))
}

// C10: fallback around nothing or around one real inner policy that produces the catalogue of
// outcomes (ExceededError, ErrOpen, ErrFull, rate-limit error, plain results and errors).
func ZZ_C10_Fallback() {
	w := &world{}
	w.cfgs = []layerCfg{chooseCfg(kFallback, 0)}
	if k := zzvrt.Choose("inner", nKinds+1); k < nKinds {
		w.cfgs = append(w.cfgs, chooseCfg(k, 1))
	}
	runHistory(w, zzvrt.Param("execs", 2), zzvrt.Param("max_inv", 3))
}

// C11: cache around nothing or one stateful inner policy; configured and context-supplied keys.
func ZZ_C11_Cache() {
	w := &world{}
	w.ctxKeyKind = zzvrt.Choose("ctx-key", 4)
	w.cfgs = []layerCfg{chooseCfg(kCache, 0)}
	switch zzvrt.Choose("inner", 5) {
	case 1:
		w.cfgs = append(w.cfgs, chooseCfg(kRetry, 1))
	case 2:
		w.cfgs = append(w.cfgs, chooseCfg(kBreaker, 1))
	case 3:
		w.cfgs = append(w.cfgs, chooseCfg(kBulkhead, 1))
	case 4:
		w.cfgs = append(w.cfgs, chooseCfg(kCache, 1))
	}
	runHistory(w, zzvrt.Param("execs", 3), zzvrt.Param("max_inv", 3))
}

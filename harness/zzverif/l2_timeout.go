//go:build verif

package zzverif

import (
	"context"
	"errors"
	"time"

	"github.com/failsafe-go/failsafe-go/bulkhead"
	"github.com/failsafe-go/failsafe-go/circuitbreaker"

	"github.com/failsafe-go/failsafe-go"
	"github.com/failsafe-go/failsafe-go/fallback"
	"github.com/failsafe-go/failsafe-go/internal/zzvrt"
	"github.com/failsafe-go/failsafe-go/retrypolicy"
	"github.com/failsafe-go/failsafe-go/timeout"
)

func symDur(name string, lo, hiBits int64) time.Duration {
	d := zzvrt.Int64(name)
	zzvrt.Assume(d >= lo)
	zzvrt.Assume(d < int64(1)<<hiBits)
	return time.Duration(d)
}

// S07a: Timeout(T) directly around the function: outcome exclusive and consistent, never early.
func ZZ_S07a_Timeout() {
	T := symDur("T", 1, 40)
	d := symDur("d", 0, 40)
	blocking := zzvrt.Choose("fn-blocks-until-cancelled", 2) == 1
	to := timeout.Builder[int](T).OnTimeoutExceeded(func(e failsafe.ExecutionDoneEvent[int]) {
		zzvrt.CtrAdd("listener", 1)
		zzvrt.Assert(errors.Is(e.Error, timeout.ErrExceeded), "timeout: listener event carries ErrExceeded")
	}).Build()
	start := zzvrt.Now()
	var seen failsafe.Execution[int]
	canceledAtReturn := false
	r, err := failsafe.NewExecutor[int](to).GetWithExecution(func(e failsafe.Execution[int]) (int, error) {
		seen = e
		if blocking {
			<-e.Canceled()
			return 8, errA
		}
		zzvrt.Sleep(d)
		canceledAtReturn = e.IsCanceled()
		return 7, nil
	})
	end := zzvrt.Now()
	zzvrt.Quiesce()
	listener := zzvrt.CtrGet("listener")
	if errors.Is(err, timeout.ErrExceeded) {
		zzvrt.Assert(r == 0, "timeout: ErrExceeded comes with the zero result")
		zzvrt.Assert(listener == 1, "timeout: listener called exactly once when ErrExceeded is returned")
		zzvrt.Assert(end-start >= int64(T), "timeout: ErrExceeded never before the time limit elapsed")
		zzvrt.Assert(seen.IsCanceled(), "timeout: execution cancelled for everything inside the Timeout")
		zzvrt.Assert(seen.Context().Err() != nil, "timeout: context cancelled for everything inside the Timeout")
		if !blocking {
			zzvrt.Assert(d >= T, "timeout: fires only if the function took at least the limit")
		}
		zzvrt.Reach("timed-out")
	} else {
		zzvrt.Assert(!blocking, "timeout: a function that only returns on cancellation ends in ErrExceeded")
		zzvrt.Assert(err == nil, "timeout: inner error returned unchanged")
		zzvrt.Assert(r == 7, "timeout: inner result returned unchanged")
		zzvrt.Assert(listener == 0, "timeout: listener never called when the inner result is returned")
		zzvrt.Assert(!canceledAtReturn, "timeout: execution not cancelled by the Timeout when the inner result wins")
		zzvrt.Assert(!seen.IsCanceled(), "timeout: execution still not cancelled after completion")
		zzvrt.Assert(d <= T, "timeout: inner result only if the function finished by the limit")
		zzvrt.Reach("inner-result")
	}
	zzvrt.Assert(zzvrt.Live() == 0, "leak: no library goroutine left after a Timeout execution")
	zzvrt.Assert(zzvrt.ArmedTimers() == 0, "leak: no library timer left armed after a Timeout execution")
}

// S07b: Retry(Timeout(fn)): the limit applies afresh to each attempt.
func ZZ_S07b_RetryTimeout() {
	T := symDur("T", 1, 40)
	d1 := symDur("d1", 0, 40)
	d2 := symDur("d2", 0, 40)
	to := timeout.Builder[int](T).OnTimeoutExceeded(func(e failsafe.ExecutionDoneEvent[int]) {
		zzvrt.CtrAdd("listener", 1)
		zzvrt.Assert(zzvrt.Now()-zzvrt.CellGet("attemptStart") >= int64(T), "timeout: limit measured from the start of the attempt it belongs to")
	}).Build()
	rp := retrypolicy.Builder[int]().WithMaxRetries(1).Build()
	n := 0
	// the first attempt either runs into its limit (or not), or fails at once with a distinguishable outcome
	firstFails := zzvrt.Choose("first-attempt-fails", 2) == 1
	r, err := failsafe.NewExecutor[int](rp, to).GetWithExecution(func(e failsafe.Execution[int]) (int, error) {
		n++
		zzvrt.CellSet("attemptStart", zzvrt.Now())
		zzvrt.Assert(!e.IsCanceled(), "timeout: a new attempt starts un-cancelled")
		if n == 1 {
			if firstFails {
				return 5, errA
			}
			zzvrt.Sleep(d1)
		} else {
			// the execution handed to the function is its own copy: what it shows as the last attempt's outcome
			// does not change while the attempt runs, even if this attempt's own timeout fires meanwhile (C14/C17)
			le, lr := e.LastError(), e.LastResult()
			if firstFails {
				zzvrt.Assert(le == errA, "stats: LastError is the most recent completed attempt's error")
				zzvrt.Assert(lr == 5, "stats: LastResult is the most recent completed attempt's result")
			} else {
				zzvrt.Assert(errors.Is(le, timeout.ErrExceeded), "stats: LastError is the most recent completed attempt's error")
			}
			zzvrt.Sleep(d2)
			zzvrt.Assert(e.LastError() == le, "concurrency: the execution given to the function is not modified by the timeout's goroutine")
			zzvrt.Assert(e.LastResult() == lr, "concurrency: the execution given to the function is not modified by the timeout's goroutine")
			zzvrt.Assert(e.LastError() == le, "stats: LastError seen by a running attempt stays the most recent completed attempt's (also once its own timeout has fired)")
			zzvrt.Assert(e.LastResult() == lr, "stats: LastResult seen by a running attempt stays the most recent completed attempt's (also once its own timeout has fired)")
		}
		return 7, nil
	})
	zzvrt.Quiesce()
	listener := zzvrt.CtrGet("listener")
	zzvrt.Assert(n <= 2, "retry: at most maxRetries+1 attempts")
	first := 1 // listener calls owed to the first attempt
	if firstFails {
		first = 0
	}
	if err == nil {
		zzvrt.Assert(r == 7, "timeout: inner result returned unchanged")
		if n == 2 {
			zzvrt.Assert(listener == first, "timeout: one listener call per timed-out attempt")
			if !firstFails {
				zzvrt.Assert(d1 >= T, "timeout: first attempt retried only because it reached the limit")
			}
			zzvrt.Assert(d2 <= T, "timeout: second attempt succeeded within its own fresh limit")
		} else {
			zzvrt.Assert(listener == 0, "timeout: one listener call per timed-out attempt")
		}
	} else {
		zzvrt.Assert(errors.Is(err, retrypolicy.ErrExceeded), "retry: gives up with ExceededError")
		zzvrt.Assert(errors.Is(err, timeout.ErrExceeded), "retry: ExceededError wraps the last timeout")
		zzvrt.Assert(n == 2, "retry: both attempts were made")
		zzvrt.Assert(listener == first+1, "timeout: one listener call per timed-out attempt")
		zzvrt.Assert(d2 >= T, "timeout: second attempt had its own full limit")
	}
	zzvrt.Assert(zzvrt.Live() == 0, "leak: no library goroutine left after Retry(Timeout)")
	zzvrt.Assert(zzvrt.ArmedTimers() == 0, "leak: no library timer left armed after Retry(Timeout)")
	zzvrt.Reach("retry-timeout-done")
}

// S07c: Timeout(Fallback(fn)): a timeout firing while the fallback is being computed still wins
// consistently; Fallback(Timeout(fn)): the fallback handles ErrExceeded.
func ZZ_S07c_TimeoutFallback() {
	T := symDur("T", 1, 40)
	d := symDur("d", 0, 40)
	df := symDur("dFallback", 0, 40)
	outer := zzvrt.Choose("timeout-outside", 2) == 1
	to := timeout.Builder[int](T).OnTimeoutExceeded(func(e failsafe.ExecutionDoneEvent[int]) { zzvrt.CtrAdd("listener", 1) }).Build()
	fb := fallback.BuilderWithFunc(func(e failsafe.Execution[int]) (int, error) {
		zzvrt.CtrAdd("fallback", 1)
		zzvrt.Assert(e.LastError() != nil, "fallback: sees the failed error as the last error")
		failedWith := e.LastError()
		zzvrt.Sleep(df)
		zzvrt.Assert(e.LastError() == failedWith, "fallback: keeps seeing the failed outcome while it runs (also if a timeout fires meanwhile)")
		zzvrt.Assert(e.LastResult() == 0, "fallback: sees the failed result as the last result")
		return 99, nil
	}).Build()
	var ps []failsafe.Policy[int]
	if outer {
		ps = []failsafe.Policy[int]{to, fb}
	} else {
		ps = []failsafe.Policy[int]{fb, to}
	}
	start := zzvrt.Now()
	r, err := failsafe.NewExecutor[int](ps...).GetWithExecution(func(e failsafe.Execution[int]) (int, error) {
		zzvrt.Sleep(d)
		return 0, errA
	})
	end := zzvrt.Now()
	zzvrt.Quiesce()
	listener := zzvrt.CtrGet("listener")
	fbCalls := zzvrt.CtrGet("fallback")
	if outer {
		if errors.Is(err, timeout.ErrExceeded) {
			zzvrt.Assert(listener == 1, "timeout: listener called exactly once when ErrExceeded is returned")
			zzvrt.Assert(end-start >= int64(T), "timeout: ErrExceeded never before the time limit elapsed")
			zzvrt.Assert(r == 0, "cancel: never the output of a fallback that the timeout encloses")
			if d > T {
				zzvrt.Assert(fbCalls == 0, "fallback: not applied when the execution was already cancelled when the inner result arrived")
			}
		} else {
			zzvrt.Assert(err == nil, "timeout: inner (fallback) result returned unchanged")
			zzvrt.Assert(r == 99, "timeout: inner (fallback) result returned unchanged")
			zzvrt.Assert(listener == 0, "timeout: listener never called when the inner result is returned")
			zzvrt.Assert(fbCalls == 1, "fallback: applied exactly once")
		}
	} else {
		zzvrt.Assert(err == nil, "fallback: replaces the failure (errA or ErrExceeded)")
		zzvrt.Assert(r == 99, "fallback: replaces the failure (errA or ErrExceeded)")
		zzvrt.Assert(fbCalls == 1, "fallback: applied exactly once")
		zzvrt.Assert(listener <= 1, "timeout: listener at most once")
		if listener == 1 {
			zzvrt.Assert(d >= T, "timeout: fires only if the function took at least the limit")
		}
	}
	zzvrt.Assert(zzvrt.Live() == 0, "leak: no library goroutine left")
	zzvrt.Assert(zzvrt.ArmedTimers() == 0, "leak: no library timer left armed")
	zzvrt.Reach("timeout-fallback-done")
}

// S07d: Retry(Timeout(fn)) whose caller context is cancelled at a symbolic instant: the execution
// ends in ErrExceeded only if the Timeout of the attempt it ends with really fired.
func ZZ_S07d_RetryTimeoutCtx() {
	T := symDur("T", 1, 40)
	d1 := symDur("d1", 0, 40)
	// (not the exact tie d1 == T: there the first attempt's timer callback can be descheduled between winning
	// the race and cancelling its attempt, and a caller cancellation — a second source, outside what C07/C08
	// quantify over — then picks up that late result)
	zzvrt.Assume(d1 != T)
	c := symDur("cancelAt", 0, 40)
	to := timeout.Builder[int](T).OnTimeoutExceeded(func(e failsafe.ExecutionDoneEvent[int]) {
		zzvrt.CtrAdd(idx("fired", zzvrt.CtrGet("attempt")), 1)
	}).Build()
	rp := retrypolicy.Builder[int]().WithMaxRetries(1).Build()
	ctx, cancel := context.WithCancel(context.Background())
	go func() {
		zzvrt.Sleep(c)
		cancel()
	}()
	_, err := failsafe.NewExecutor[int](rp, to).WithContext(ctx).GetWithExecution(func(e failsafe.Execution[int]) (int, error) {
		n := zzvrt.CtrAdd("attempt", 1)
		if n == 1 {
			zzvrt.Sleep(d1)
			return 0, errA
		}
		<-e.Canceled() // the second attempt runs until it is cancelled (by its Timeout or by the caller)
		return 0, errA
	})
	zzvrt.Quiesce()
	last := zzvrt.CtrGet("attempt")
	if errors.Is(err, timeout.ErrExceeded) && !errors.Is(err, context.Canceled) {
		zzvrt.Assert(zzvrt.CtrGet(idx("fired", last)) == 1, "timeout: ErrExceeded only if the Timeout of the attempt the execution ended with fired")
	}
	if errors.Is(err, context.Canceled) {
		zzvrt.Reach("ended-by-caller-cancel")
	}
	cancel()
	zzvrt.Reach("retry-timeout-ctx-done")
}

// S07e: Timeout(X(fn)) for X = bulkhead / circuit breaker: when the timeout fires while fn runs,
// X still post-processes what fn returned (permit returned, failure recorded) — nesting (C01).
func ZZ_S07e_TimeoutOutside() {
	T := symDur("T", 1, 40)
	d := symDur("d", 0, 40)
	which := zzvrt.Choose("inner", 2)
	to := timeout.With[int](T)
	bh := bulkhead.With[int](1)
	cb := circuitbreaker.Builder[int]().WithFailureThreshold(1).WithDelay(time.Hour).Build()
	var inner failsafe.Policy[int] = bh
	if which == 1 {
		inner = cb
	}
	_, err := failsafe.NewExecutor[int](to, inner).GetWithExecution(func(e failsafe.Execution[int]) (int, error) {
		zzvrt.Sleep(d)
		return 0, errA
	})
	zzvrt.Quiesce()
	zzvrt.Assert(err != nil, "nesting: the failure (errA or ErrExceeded) is reported")
	if which == 0 {
		zzvrt.Assert(bh.TryAcquirePermit(), "nesting: the bulkhead inside a Timeout gets its permit back however the execution ends")
	} else {
		zzvrt.Assert(cb.IsOpen(), "nesting: the breaker inside a Timeout records what the function returned")
		zzvrt.Assert(cb.Metrics().Failures() == 1, "nesting: the breaker inside a Timeout records what the function returned")
	}
	zzvrt.Reach("timeout-outside-done")
}

// S07f: Timeout(T)(fn) whose execution is cancelled through the caller's context at a symbolic instant c while the
// function waits; the function returns the context's error (the usual shape of context-aware code). The Timeout did
// not fire: context.Canceled comes back unchanged, its listener is never called — not even once T has passed — and
// its timer does not stay armed after the execution finished (C07, C08, C19).
func ZZ_S07f_TimeoutCtxCancel() {
	T := symDur("T", 1, 40)
	c := symDur("cancelAt", 0, 40)
	async := zzvrt.Choose("async", 2) == 1
	returnsCtxErr := zzvrt.Choose("fn-returns-ctx-error", 2) == 1
	ctx, cancel := context.WithCancel(context.Background())
	to := timeout.Builder[int](T).OnTimeoutExceeded(func(e failsafe.ExecutionDoneEvent[int]) {
		zzvrt.CtrAdd("listener", 1)
	}).Build()
	go func() {
		zzvrt.Sleep(c)
		cancel()
	}()
	fn := func(e failsafe.Execution[int]) (int, error) {
		<-e.Canceled()
		if returnsCtxErr {
			return 0, e.Context().Err()
		}
		return 9, nil
	}
	start := zzvrt.Now()
	var r int
	var err error
	ex := failsafe.NewExecutor[int](to).WithContext(ctx)
	if async {
		r, err = ex.GetWithExecutionAsync(fn).Get()
	} else {
		r, err = ex.GetWithExecution(fn)
	}
	end := zzvrt.Now()
	listenerAtReturn := zzvrt.CtrGet("listener")
	armedAtReturn := zzvrt.ArmedTimers()
	if errors.Is(err, timeout.ErrExceeded) {
		zzvrt.Assert(end-start >= int64(T), "timeout: ErrExceeded never before the time limit elapsed")
		zzvrt.Assert(listenerAtReturn <= 1, "timeout: listener called exactly once when ErrExceeded is returned")
		zzvrt.Assert(c >= T, "timeout: fires only if the function took at least the limit")
		zzvrt.Reach("ctx-cancel-timed-out")
	} else {
		if returnsCtxErr {
			zzvrt.Assert(errors.Is(err, context.Canceled), "cancel: context cancellation is reported as context.Canceled")
		} else if err != nil { // a function that answers the cancellation with a result: that result, or the cause
			zzvrt.Assert(errors.Is(err, context.Canceled), "cancel: context cancellation is reported as context.Canceled")
		} else {
			zzvrt.Assert(r == 9, "timeout: inner result returned unchanged")
		}
		zzvrt.Assert(end-start == int64(c), "cancel: a cooperating execution ends at the cancellation instant")
		zzvrt.Assert(armedAtReturn == 0, "leak: the Timeout's timer is stopped when the execution ends by cancellation")
		zzvrt.Reach("ctx-cancel-wins")
	}
	_ = r
	zzvrt.Sleep(T) // let the limit pass
	zzvrt.Quiesce()
	if !errors.Is(err, timeout.ErrExceeded) {
		zzvrt.Assert(zzvrt.CtrGet("listener") == 0, "timeout: listener never called when the Timeout did not produce the result (also after the limit has passed)")
	} else {
		zzvrt.Assert(zzvrt.CtrGet("listener") == 1, "timeout: listener called exactly once when ErrExceeded is returned")
	}
	zzvrt.Assert(zzvrt.Live() == 0, "leak: no library goroutine left after a cancelled Timeout execution")
	zzvrt.Assert(zzvrt.ArmedTimers() == 0, "leak: no library timer left armed after a cancelled Timeout execution")
	zzvrt.Reach("timeout-ctx-cancel-done")
}
